"""C19 — $ENV{NAME} expansion in appender / roller paths.
case: ( site path env pattern more rolls )   site 0 FileAppender, 1 RollingFileAppender, 2 FixedWindowRoller;
  site + 10: same call site, path handed over relative to the temp root as working directory (only when neither
  the path nor any value contains '/'), so that the text reaching expand_env_vars begins with the generated path
  path / pattern: code points; env: ((name value) ...) the variables that are set.
  For site 2 `pattern` contains "{}", the roller is built with count = 1 + len(more) and rolled `rolls` times
  (the j-th rolled file contains the number j); `path` = pattern with "{}" -> "0" and more[i-1] = pattern with
  "{}" -> i: the texts that reach expand_env_vars for the archive indices.
impl:  ( alnum obs )            obs = (1 relpath) | (0 n) | (2) | site 2: (3 ((relpath j) ...))
model: ( model spec ((model spec) ...) ) model = (1 cps) | "panic", spec = cps (one-pass expansion; model = spec
       is a theorem); the list is for `more`"""
import vcommon as vc

RULE = ("paths are concatenations of 1-8 pieces drawn from: literal text (ASCII, non-ASCII incl. 4-byte, stray '$' '{' '}', "
        "prefixes of '$ENV{', look-alikes '$env{A}' '$ENV {A}' '${A}', directory separators), well-formed references "
        "to set and to unset variables (names with '_', '.', digits first, non-ASCII letters, code points whose "
        "alphanumeric status is decided by the real char::is_alphanumeric), repeated and adjacent references, malformed "
        "references (empty name, illegal first character, illegal inner character incl. non-ASCII, missing brace in the "
        "middle and at the very end, nested); variable values are arbitrary (empty, containing '{' '}' 'ENV' 'ENV{B}' "
        "'{}' '/', non-ASCII, '$', '$ENV{', whole references to set/unset variables); variables with illegal names "
        "are sometimes set too. A template stream builds forged references on purpose (a value and its neighbouring "
        "literals spell another reference: the class of the fixed finding F-C19-forged-ref). Every path is run through the "
        "three call sites (the roller with '{}' inserted at a random place, window count 1-3, 1-3 successive rolls; ALL "
        "archive locations and which rolled file each holds are observed). Two further streams: references to set but "
        "EMPTY variables at offset 0 / in the middle / at the end, alone and next to other references (expansions that "
        "differ from the input only by deletions); roller patterns whose '{}' shares a path component with a reference "
        "whose value contains '/' (the expanded location has more directory levels than the pattern). corpus: the DESIGN witness and hand-made "
        "edge cases. non-trivial = the path contains '$ENV{' ; distinct = distinct case line")
ASSUMPTIONS = ["variable values are valid UTF-8 (they may contain '$' and references: wider than the property's quantifier)",
               "absolute hand-over: the temp-root prefix contains no '$', so it takes no part in the expansion (theorem "
               "C19_prefix); relative hand-over (cases without '/'): no prefix at all, the process's working directory is "
               "the temp root during the call",
               "paths are valid UTF-8 without NUL; no generated component is '.', '..' or longer than 255 bytes",
               "FixedWindowRoller substitutes '{}' before expanding (the substituted text is what the model receives)"]
SETUP_FEATURE_BUILDS = ["background_rotation"]   # background_build_checks
RELEASE_TOO = True          # the cases also run through the release-profile harness (see ./check)
EXHAUSTIVE = {"quick": False, "thorough": False}
TRUSTED = ["char::is_alphanumeric beyond ASCII is an oracle: the harness reports the real classification of the case's "
           "characters and the model is run with it (theorems hold for every oracle)",
           "std::env::set_var/var and the file system (temp directories) as the observation channel"]

NAMES = ["A", "B", "C", "AB", "a.b", "_x", "x_1", "1x", "N.", "_", "Ab9", "é", "日本", "x½", "aͅ", "ⅷ", "a²",
         "B.log", "A.B", "x"]
BAD_NAMES = ["", ".a", "-a", "a-b", "a b", "a€", "a{b", " A", "A ", "a/b", "é-", "á", "a:b", "😀", "a😀", "a}b"]
VALUES = ["vb", "", "v{", "}", "{", "ENV{B}", "NV{B}", "{B}", "B}", "B", "ENV", "ENV{", "a/b", "/e", "é日", "{}", "x.y",
          "ENV{A}", "ENV{a.b}", "NV{AB}", "V{C}", "E", "ENV{B}x", "val", "A", "ENV{_}", "😀", "{A}", "ENV{é}", "_",
          "$", "$ENV{B}", "x$ENV{A}y", "$ENV{", "$$", "$ENV{A}$ENV{B}", "$ENV{a.b}", "$E", "v$", "$ENV{_}", "$ENV{é}"]
LITS = ["x", "log", "a.b", ".log", "-", "_", " ", "é", "日本", "😀", "$", "{", "}", "$$", "${", "$E", "$EN", "$ENV",
        "$ENV{", "ENV{", "$env{A}", "$ENV {A}", "${A}", "$A", "d/x", "/e", "a/b", "E", "NV{", "B}", "{B}", "}}", "A", "B",
        "$ENV{}", "€", "ß", "0", "a²", "́x", "\t", "$ENV{$", "$ENV{{", "%A%", "~"]


def cps(s):
    return [ord(c) for c in s]


def ref(n):
    return "$ENV{" + n + "}"


def gen_env(rng, used):
    env = {}
    for n in used:
        if rng.chance(3, 4):
            env[n] = rng.choice(VALUES)
    for _ in range(rng.below(3)):
        env.setdefault(rng.choice(NAMES), rng.choice(VALUES))
    if rng.chance(1, 6):
        bn = rng.choice([b for b in BAD_NAMES if b])
        env[bn] = rng.choice(VALUES)
    return env


def gen_pieces(rng):
    used = []
    pcs = []
    n = rng.range(1, 8)
    for i in range(n):
        r = rng.below(100)
        if r < 30:
            pcs.append(rng.choice(LITS))
        elif r < 65:
            if used and rng.chance(1, 3):
                nm = rng.choice(used)          # repeated reference
            else:
                nm = rng.choice(NAMES)
            used.append(nm)
            pcs.append(ref(nm))
            if rng.chance(1, 4):               # adjacency
                nm2 = rng.choice(NAMES)
                used.append(nm2)
                pcs.append(ref(nm2))
        elif r < 78:
            pcs.append(ref(rng.choice(BAD_NAMES)))
        elif r < 86:
            nm = rng.choice(NAMES)
            used.append(nm)
            pcs.append("$ENV{" + nm)           # missing brace (maybe at the very end)
        elif r < 93:
            a, b = rng.choice(NAMES), rng.choice(NAMES)
            used += [a, b]
            pcs.append(rng.choice(["$ENV{" + a + ref(b) + "}", "$ENV{" + ref(a) + "}", "$" + ref(a), "$ENV{" + a + "{" + b + "}}"]))
        else:
            pcs.append(rng.choice(["$", "{", "}"]))
    return pcs, used


def gen_forged(rng):
    """a value that, with its literal neighbourhood, spells a reference processed later (or earlier)"""
    y = rng.choice(["B", "AB", "a.b", "_", "é"])
    x = rng.choice([n for n in NAMES if n != y])
    vy = rng.choice(["vb", "", "w/z", "ENV{" + x + "}"])
    k = rng.below(6)
    if k == 0:      # $ + value "ENV{y}"
        body, vx = "$" + ref(x), "ENV{" + y + "}"
    elif k == 1:    # $E + value "NV{y}"
        body, vx = "$E" + ref(x), "NV{" + y + "}"
    elif k == 2:    # "$ENV{" + value y + "}"
        body, vx = "$ENV{" + ref(x) + "}", y
    elif k == 3:    # value "ENV{y" + "}"
        body, vx = "$" + ref(x) + "}", "ENV{" + y
    elif k == 4:    # partial name
        body, vx = "$ENV{" + y[:1] + ref(x) + "}", y[1:]
    else:
        body, vx = "$ENV" + ref(x), "{" + y + "}"
    later = ref(y)
    pre = rng.choice(["x", "", "d/", "é"])
    mid = rng.choice(["-", "", ".", "/q"])
    if rng.chance(2, 3):
        path = pre + body + mid + later          # forged text before the genuine reference: defect shows
    else:
        path = pre + later + mid + body          # genuine first: forged text stays (no defect)
    env = {x: vx, y: vy}
    if rng.chance(1, 4):
        del env[y]
    return path + rng.choice(["", ".log"]), env


def usable(path):
    # never an empty file name through an all-empty path; other hazards are excluded by construction
    return len(path) > 0 and len(path.encode()) < 180 and "\0" not in path


def _rel_ok(text, env_list):
    """relative hand-over is used only when no '/' can occur in anything the call site may build"""
    return "/" not in text and all(47 not in v for _, v in env_list)


def roller_case(pattern, env_list, count, rolls):
    subs = [pattern.replace("{}", str(i)) for i in range(count)]
    site = 12 if _rel_ok(pattern, env_list) else 2
    return [site, cps(subs[0]), env_list, cps(pattern), [cps(x) for x in subs[1:]], rolls]


def with_sites(rng, path, env, sites=(0, 1, 2), boundaries=None):
    out = []
    e = [[cps(k), cps(v)] for k, v in env.items()]
    for s in sites:
        if s < 2:
            out.append([s + 10 if _rel_ok(path, e) else s, cps(path), e, [], [], 0])
        else:
            count = rng.choice([1, 1, 2, 3])
            rolls = 1 if count == 1 else rng.range(2, 3)
            if count > 1 and boundaries:
                # several archives: "{}" goes between pieces (never inside a reference's name)
                i = rng.choice(boundaries)
            else:
                i = rng.below(len(path) + 1) if rng.chance(1, 2) else len(path)
            pattern = path[:i] + rng.choice(["{}", ".{}", "{}."]) + path[i:]
            out.append(roller_case(pattern, e, count, rolls))
    return out


def corpus():
    class R:  # deterministic positions for the corpus
        def below(self, n): return 0
        def chance(self, a, b): return False
        def choice(self, xs): return xs[0]
    r = R()
    out = []
    hand = [
        ("x$$ENV{A}-$ENV{B}.log", {"A": "ENV{B}", "B": "vb"}),
        ("x$$ENV{A}-$ENV{B}", {"A": "ENV{B}", "B": "vb"}),
        ("$ENV{A}", {"A": "v"}), ("$ENV{A}", {}), ("a$ENV{A}$ENV{A}b", {"A": "v"}),
        ("$ENV{A}$ENV{B}", {"A": "1", "B": "2"}), ("$ENV{A", {"A": "v"}), ("x$ENV{", {}), ("x$ENV{}", {}),
        ("$ENV{é}", {"é": "ok"}), ("$ENV{日本}.log", {"日本": "jp"}), ("é$ENV{A}日", {"A": "😀"}),
        ("$ENV{A$ENV{B}}", {"A": "1", "B": "2"}), ("$ENV{.a}", {".a": "v"}), ("$ENV{a-b}", {"a-b": "v"}),
        ("$ENV{a.b}", {"a.b": "v"}), ("$ENV{_}", {"_": "u"}), ("$ENV{1x}", {"1x": "d"}),
        ("q$ENV{A}", {"A": ""}), ("$ENV{A}/f", {"A": "d/e"}), ("$ENV{B}-$$ENV{A}", {"A": "ENV{B}", "B": "vb"}),
        ("$ENV{$ENV{A}}-$ENV{B}", {"A": "B", "B": "vb"}), ("😀$ENV{A}😀$ENV{A", {"A": "é"}),
        ("$ENV{A}-$ENV{B}", {"A": "$ENV{B}", "B": "$ENV{A}"}), ("$ENV{A}", {"A": "$ENV{A}"}), ("$ENV{A}{B}", {"A": "$ENV", "B": "w"}),
        ("x$ENV{A}$ENV{B}", {"A": "$ENV{", "B": "B}"}), ("$ENV{A}ENV{B}", {"A": "$", "B": "w"}),
    ]
    for p, e in hand:
        out += with_sites(r, p, e)
    # set but empty variables (seeded C19-5): the expansion only deletes text
    for p, e in [("$ENV{PFX}app.log", {"PFX": ""}), ("$ENV{A}$ENV{B}x", {"A": "", "B": ""}), ("$ENV{A}x$ENV{B}", {"A": "", "B": "v"}),
                 ("$ENV{A}$ENV{U}", {"A": ""}), ("a$ENV{A}b", {"A": ""}), ("ab$ENV{A}", {"A": ""}), ("$ENV{A}$ENV{A}q", {"A": ""})]:
        out += with_sites(r, p, e)
    # roller: the value adds directory levels next to "{}" (seeded C19-6)
    for pat, e, cnt, rolls in [("arch/a{}$ENV{TAIL}", {"TAIL": "/app.log"}, 2, 2), ("arch/a{}$ENV{TAIL}", {"TAIL": "/app.log"}, 3, 3),
                               ("a{}$ENV{T}", {"T": "/x/y.log"}, 2, 3), ("$ENV{D}{}/f", {"D": "p/q"}, 3, 3),
                               ("d/{}$ENV{U}.log", {}, 2, 2), ("x.{}", {}, 3, 3), ("$ENV{D}/x.{}.log", {"D": "logs/app"}, 3, 2)]:
        out.append(roller_case(pat, [[cps(k), cps(v)] for k, v in e.items()], cnt, rolls))
    return out


def gen_empty(rng):
    """references to set-but-empty variables at the start / middle / end, alone or with other pieces"""
    lits = ["app", ".log", "x", "é", "d/f", "-", "$", "{", "}", "$ENV{", "日本"]
    names = rng.shuffle(["A", "B", "PFX", "a.b", "_", "é"])
    env = {names[0]: ""}
    if rng.chance(1, 2):
        env[names[1]] = ""
    others = []
    for _ in range(rng.below(3)):
        k = rng.below(4)
        if k == 0:
            others.append(rng.choice(lits))
        elif k == 1:
            others.append(ref(names[2]))                # unset (or set below)
        elif k == 2:
            others.append(ref(rng.choice(BAD_NAMES)))
        else:
            others.append(ref(names[1]))
    if rng.chance(1, 4):
        env[names[2]] = rng.choice(["v", "", "a/b", "$ENV{A}"])
    lit = rng.choice(lits[:6])
    e = ref(names[0])
    where = rng.below(4)
    if where == 0:
        pcs = [e] + others + [lit]
    elif where == 1:
        pcs = [lit] + others + [e]
    elif where == 2:
        pcs = [lit, e] + others + [rng.choice(lits[:6])]
    else:
        pcs = [e, e] + others + [lit, e]
    return pcs, env


def gen_roller(rng):
    """'{}' in the same path component as references; values that add directory levels"""
    vals = ["/app.log", "/x/y", "p/q", "a/b", "/e", "v", "", "x.y"]
    names = rng.shuffle(["T", "D", "A", "a.b", "é"])
    env = {}
    pcs = []
    for _ in range(rng.range(1, 3)):
        k = rng.below(5)
        if k < 3:
            n = rng.choice(names[:3])
            if rng.chance(4, 5):
                env[n] = rng.choice(vals)
            pcs.append(ref(n))
        elif k == 3:
            pcs.append(rng.choice(["arch/a", "d/", "x", ".log", "-", "logs/app."]))
        else:
            pcs.append(ref(rng.choice(BAD_NAMES)))
    i = rng.below(len(pcs) + 1)
    pcs.insert(i, rng.choice(["{}", "a{}", "{}.", "d/{}", "{}x"]))
    if rng.chance(1, 2):
        pcs.insert(0, rng.choice(["arch/", "r", "d/e/"]))
    if rng.chance(1, 2):
        pcs.append(rng.choice([".log", "z", "/f"]))
    count = rng.range(2, 3)
    rolls = rng.range(2, 3)
    return "".join(pcs), env, count, rolls


def cases(rng, tier):
    out = []
    quick = tier == "quick"
    n = 1300 if quick else 25000
    made = 0
    while made < n:
        boundaries, pcs, used = None, None, None
        if rng.chance(1, 6):
            path, env = gen_forged(rng)
        elif rng.chance(1, 6):
            pcs, env = gen_empty(rng)
            path = "".join(pcs)
        else:
            pcs, used = gen_pieces(rng)
            path = "".join(pcs)
            env = gen_env(rng, used)
        if pcs is not None:
            boundaries, k = [0], 0
            for pc in pcs:
                k += len(pc)
                boundaries.append(k)
        if not usable(path):
            continue
        made += 1
        new = with_sites(rng, path, env, boundaries=boundaries)
        if pcs is not None and used:
            # referenced variables that are NOT set as far as `std::env::var` is concerned because their value is not
            # valid UTF-8 (7th field: the harness sets them to the bytes "raw\xffvalue"; the model and the oracles do
            # not see them): the reference stays as it is
            raw = [nm for nm in used if nm not in env and nm in NAMES]
            if raw and rng.chance(1, 2):
                for c in new:
                    c.append([cps(nm) for nm in sorted(set(raw))])
        out += new
    for _ in range(250 if quick else 5000):
        pattern, env, count, rolls = gen_roller(rng)
        if usable(pattern):
            out.append(roller_case(pattern, [[cps(k), cps(v)] for k, v in env.items()], count, rolls))
    return out


def _text(cpl):
    return "".join(chr(x) for x in cpl)


def model_lines(ctx, cases_, lines, impl_lines):
    out = []
    for c, il in zip(cases_, impl_lines):
        try:
            iv = vc.parse(il)
            al = list(iv[0]) if isinstance(iv, list) else None
        except Exception:
            al = None
        if al is None:   # the harness died on this case: fall back to Python's classification
            al = sorted(set(x for x in c[1] + c[3] if x > 127 and chr(x).isalnum()))
        out.append(vc.show(list(c[:6]) + [al]))
    return out


def _norm(s):
    return "/".join(x for x in s.split("/") if x)


def _matches(cpl, obs):
    """True/False: the observation is / is not a file at the given expansion; None: that expansion cannot be
    observed through the file system (empty, trailing '/', or a '.' / '..' component)"""
    s = _norm(_text(cpl))
    if s == "" or _text(cpl).endswith("/") or any(x in (".", "..") for x in s.split("/")):
        return None
    return obs == [1, cps(s)]


def _roller_expect(c, specs):
    """expected {relpath: j} after the rolls, or None when the archive locations cannot be told apart /
    observed through the file system"""
    count, rolls = 1 + len(c[4]), c[5]
    locs = []
    for sp in specs[:min(count, rolls)]:
        t = _text(sp)
        s = _norm(t)
        if s == "" or t.endswith("/") or any(x in (".", "..") for x in s.split("/")):
            return None
        locs.append(s)
    if len(set(locs)) != len(locs):
        return None
    for a in locs:
        for b in locs:
            if a != b and (b + "/").startswith(a + "/"):
                return None          # one archive would have to be a directory of another
    return {loc: rolls - i for i, loc in enumerate(locs)}


def compare(c, iv, mv):
    if not isinstance(iv, list) or len(iv) != 2:
        return "the call site did not return normally: %r" % (iv,)
    model, spec, more = mv
    pairs = [(model, spec)] + [(m, sp) for m, sp in more]
    for m, sp in pairs:
        if not isinstance(m, list):
            return "the model panics on this path (C19_expand_total says it cannot)"
        if m[1] != sp:
            return "model %r differs from the one-pass meaning %r (C19_expand_is_one_pass says it cannot)" % (
                _text(m[1]), _text(sp))
    if c[0] % 10 == 2:
        exp = _roller_expect(c, [sp for _, sp in pairs])
        if exp is None:
            return None
        if iv[1][:1] != [3]:
            return "roller: observation %r, expected archives %r" % (iv[1], exp)
        got = {_text(p): j for p, j in iv[1][1]}
        if got != exp:
            return "roller: archives found %r, expected at the expanded locations %r" % (got, exp)
        return None
    if _matches(spec, iv[1]) in (True, None):
        return None
    if iv[1][:1] == [1]:
        return "file created at %r, one-pass expansion is %r" % (_text(iv[1][1]), _text(spec))
    return "observation %r, one-pass expansion is %r" % (iv[1], _text(spec))


def nontrivial(c):
    return "$ENV{" in _text(c[1])


def classify(c):
    t = _text(c[1])
    k = t.count("$ENV{")
    return "site=%d%s%s prefixes=%s%s" % (c[0] % 10, " relative" if c[0] >= 10 else "",
                                       " count=%d rolls=%d" % (1 + len(c[4]), c[5]) if c[0] % 10 == 2 else "",
                                       k if k < 3 else "3+", " non-ascii" if any(x > 127 for x in c[1]) else "")


def describe(c):
    return {"call_site": ("FileAppender", "RollingFileAppender", "FixedWindowRoller")[c[0] % 10],
            "handed_over": "relative to the temp root (cwd)" if c[0] >= 10 else "temp root + '/' + path",
            "path": _text(c[1]), "env": {_text(k): _text(v) for k, v in c[2]},
            "roller_pattern": _text(c[3]) if c[0] % 10 == 2 else None,
            "roller_count": 1 + len(c[4]) if c[0] % 10 == 2 else None, "rolls": c[5] if c[0] % 10 == 2 else None}


def extra_checks(ctx, cases_, impl_lines, model_lines_):
    """"the fixed-window roller creates its files at the expanded location" - at every roll, also when somebody removed
    the archive directory in between or the variables changed (C07's histories with $ENV patterns, environment changes
    and removed directories)"""
    res = background_build_checks(ctx, cases_, impl_lines) or flapping_checks(ctx, cases_, impl_lines)
    if res:
        return res
    from gen import xcheck
    return xcheck.borrow(ctx, "C07", "archives are created at the expanded location at every roll",
                         lambda c: any(isinstance(o, list) and o and o[0] in (2, 3) for o in c[8]) or "$ENV" in str(c[4]),
                         n=250, seed_salt=37)


def background_build_checks(ctx, cases_, impl_lines):
    """the crate built with `background_rotation`: the roller's cases (site 2) again - the feature changes WHEN the
    archives are moved, not where they go: same files as the default build (where that one rolled without error)"""
    vc = ctx["vc"]
    idx = [i for i, c in enumerate(cases_) if c[0] == 2]
    if not idx:
        return []
    exe = vc.build_harness("c19", features="background_rotation")
    lines = [vc.show(cases_[i]) for i in idx]
    got = vc.run_lines([exe], lines, timeout_per_batch=600)
    compared = 0
    for i, ln, g in zip(idx, lines, got):
        try:
            sync, bg = vc.parse(impl_lines[i]), vc.parse(g)
        except Exception:
            continue
        if not (isinstance(sync, list) and len(sync) == 2 and isinstance(sync[1], list) and sync[1] and sync[1][0] == 3):
            continue
        compared += 1
        if bg != sync:
            return [("built with `background_rotation` the roller puts its archives elsewhere than the default build: %r vs %r"
                     % (vc.jsonable(bg)[1] if isinstance(bg, list) and len(bg) == 2 else g[:200], vc.jsonable(sync)[1]),
                     {"case_line": ln, "case_description": describe(cases_[i]) if "describe" in globals() else None})]
    ctx.setdefault("xcheck", {})["roller_cases_on_the_background_rotation_build"] = compared
    return []


def flapping_checks(ctx, cases_, impl_lines):
    """the environment changes WHILE a path is expanded (another thread keeps removing and re-setting a variable the
    path references once): every reference is "to a set variable" or "to an unset variable" - the file must appear
    at the expansion under the environment WITH the variable or at the expansion WITHOUT it (model run on both),
    never anywhere else"""
    vc = ctx["vc"]
    pick = []
    seen = set()
    for c, il in zip(cases_, impl_lines):
        if c[0] != 0 or not c[2]:
            continue
        name, path = _text(c[2][0][0]), _text(c[1])
        key = (path, name)
        if key in seen or path.count("$ENV{" + name + "}") != 1 or any(_text(k) == name for k, _ in c[2][1:]):
            continue
        seen.add(key)
        pick.append((c, il))
    pick = pick[:: max(1, len(pick) // 60)][:60]
    if not pick:
        return []
    ils = [il for _, il in pick]        # the harness's char::is_alphanumeric observations for these paths
    pick = [c for c, _ in pick]
    lines = [vc.show([20] + list(c[1:6])) for c in pick]
    got = vc.run_lines([ctx["vh"]], lines, timeout_per_batch=600)
    with_ = [list(c[:6]) for c in pick]
    without = [[c[0], c[1], c[2][1:], c[3], c[4], c[5]] for c in pick]
    ml = model_lines(ctx, with_ + without, None, ils + ils)
    mo = vc.run_lines([ctx["drv"]], ml, timeout_per_batch=600, crash_marker="xmodelcrash")
    ran = 0
    for i, (c, ln, g) in enumerate(zip(pick, lines, got)):
        try:
            iv = vc.parse(g)
            specs = [vc.parse(mo[i])[1], vc.parse(mo[len(pick) + i])[1]]
        except Exception:
            return [("a variable removed and re-set by another thread during the expansion: the call site did not return normally (%s)" % g[:100],
                     {"case_line": ln})]
        allowed = [s for s in specs]
        if any(_matches(s, None) is None for s in allowed):
            continue          # an expansion that cannot be observed through the file system
        ran += 1
        okset = {_norm(_text(s)) for s in allowed}
        bad = [_text(p) for p in iv[1] if _text(p) not in okset]
        if bad:
            return [("while another thread keeps removing and re-setting %r, the file for path %r appeared at %r: neither the "
                     "expansion with the variable set (%r) nor the one with it unset (%r)" %
                     (_text(c[2][0][0]), _text(c[1]), bad[0], _text(specs[0]), _text(specs[1])), {"case_line": ln})]
    ctx.setdefault("xcheck", {})["paths_expanded_while_a_variable_flaps"] = ran
    return []
