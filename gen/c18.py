"""C18 — console output obeys tty_only and colour policy; ANSI sequences well-formed.
case (0 text background intense): one AnsiWriter::set_style on a Vec<u8>
     text/background 0 = None, 1..8 = Black..White; intense 0 = None, 1 = false, 2 = true
case (1 (no_color clicolor_force clicolor) target tty_only out_tty err_tty chunks level msg):
     one ConsoleAppender::append in a child process with exactly that environment, stdout and
     stderr each attached to a fresh pty (raw mode) or a pipe; variables () unset | ( value );
     target 0 stdout / 1 stderr; chunks = pattern tree: (0 text) | (1) {l} | (2) {m} | (3) {n} |
     (4 ( chunk ... )) {h(..)} | (5 (min max right fill) ( chunk ... )) {h(..):SPEC} with min/max
     0 = absent, k+1 = width k, right 0/1, fill one character
case (2 chunks level msg): PatternEncoder::encode of that pattern into AnsiWriter<Vec<u8>> (colour on)
observable: bytes written by set_style / encode | ( stdout_bytes stderr_bytes ) that have reached the
     child's streams when append returns: the child then terminates with _exit, without std's at-exit
     flush of stdout, so bytes append left in a user-space buffer are lost exactly as under a kill"""
import concurrent.futures
import os
import pty
import re
import select
import subprocess
import tty

LEVELS = {1: "ERROR", 2: "WARN", 3: "INFO", 4: "DEBUG", 5: "TRACE"}
STYLED = {1, 2, 3, 5}          # Highlight issues no style request at DEBUG
FINDING = "F-C18-tty-only-colour"

RULE = ("(i) all 243 styles (9 text x 9 background x 3 intensity) through AnsiWriter::set_style. "
        "(ii) child processes: every combination of NO_COLOR / CLICOLOR_FORCE / CLICOLOR in {unset, 0, 1} "
        "(27) x stdout in {pty, pipe} x stderr in {pty, pipe} x target in {stdout, stderr} x tty_only "
        "on/off x pattern in {plain `{l} {m}{n}`, `{h({l})} {m}{n}` at each of the 5 levels} = the full "
        "2592-case matrix in both tiers; plus 400 (quick) / 6000 (thorough) random cases with other values "
        "(empty, 00, yes, false, 1 with spaces, a non-Unicode byte), nested and repeated highlight "
        "groups, non-ASCII messages. (iii) highlight groups carrying a format spec: max only {1,3,5,8}, "
        "min only {4,8} x both alignments, (min,max) in {(3,5),(5,5),(8,8),(2,8)} x both alignments, fills "
        "{space, _, e-acute}, as `{h({m}):SPEC}tail` and nested `[{h(<{h({m})}|):SPEC}]`, messages of 0-12 "
        "characters (shorter than / equal to / longer than the width; multi-byte), 5 levels, through "
        "AnsiWriter<Vec<u8>>; a 288-case subset through child processes (env none / CLICOLOR_FORCE=1 / "
        "NO_COLOR=1, pty and pipe). (iv) patterns WITHOUT a trailing newline (`{m}`, `{h({l} {m})}`, "
        "`{h({l} {m}{n})}`) x 27 environments x target x tty_only x pty/pipe: the bytes must be on the "
        "stream when append returns. The children run with TERM unset / dumb / xterm-256color / vt100 (the terminal type "
        "is not part of the policy). (v) 24 configurations x 4 children: one process with a console appender on EACH "
        "stream (built in either order) where exactly one of stdout / stderr is a pty: each stream must carry what "
        "a process with only that appender writes. non-trivial = a process-level case or a style with at least one "
        "attribute; distinct = distinct case line")
ASSUMPTIONS = [
    "unix code path (isatty via libc); the Windows console path is not exercised",
    "the patterns are the tree renderings listed in the rule (literal text over a safe alphabet, {l} {m} {n} {h(..)}); pattern parsing itself is C09/C11",
    "messages and literal text contain no ESC byte, so every ESC on the stream comes from a style request",
    "a variable whose value is not valid Unicode behaves as unset (std::env::var returns Err)",
    "COLOR_MODE is read once per process; each case is its own process",
    "for groups with a format spec the independent oracle checks colour policy and the order of style requests / resets only (text layout under widths is C10's subject); exact bytes are compared with the model's width writers (Model/Console.v apply_params)",
    "width-spec families use fills from {space, _, e-acute} and widths <= 8; the sink accepts every write completely",
    "the exact colours Highlight picks per level are taken from the model (the property only requires one well-formed request per group and a reset after it)",
]
TRUSTED = ["Python's pty/tty modules and the kernel's pty line discipline in raw mode (bytes pass unchanged)",
           "the independent SGR reader in gen/c18.py (regex ESC [ digits (; digits)* m and the ECMA-48 meaning of 0, 1, 22, 30-37, 40-47)"]
RELEASE_TOO = True          # the cases also run through the release-profile harness (see ./check)
EXHAUSTIVE = {"quick": True, "thorough": True}
ENV_NAMES = ["NO_COLOR", "CLICOLOR_FORCE", "CLICOLOR"]
SGR_RE = re.compile(rb"\x1b\[([0-9;]*)m")


# ---------------------------------------------------------------- cases

def chunks_plain():
    return [[1], [0, " "], [2], [3]]


def chunks_hl():
    return [[4, [[1]]], [0, " "], [2], [3]]


def pcase(env, target, tty_only, out_tty, err_tty, chunks, level, msg="hello"):
    return [1, [([] if v is None else [v]) for v in env], target, int(tty_only), int(out_tty), int(err_tty),
            chunks, level, msg]


def spec(mn=None, mx=None, right=False, fill=" "):
    return [0 if mn is None else mn + 1, 0 if mx is None else mx + 1, int(right), fill]


SPECS = ([spec(mx=m) for m in (1, 3, 5, 8)]
         + [spec(mn=m, right=r, fill=f) for m in (4, 8) for r in (False, True) for f in (" ", "_")]
         + [spec(mn=a, mx=b, right=r, fill=f) for (a, b) in ((3, 5), (5, 5), (8, 8), (2, 8))
            for r in (False, True) for f in (" ", "\u00e9")])
WIDTH_MSGS = ["", "a", "ab", "abc", "abcd", "abcde", "abcdef", "abcdefgh", "abcdefghi", "abcdefghijkl",
              "n\u00e9\u20ac\U0001d11ex", "\u00e9\u00e9\u00e9\u00e9\u00e9"]


def width_patterns(sp):
    return [[[5, sp, [[2]]], [0, "tail"]],
            [[0, "["], [5, sp, [[0, "<"], [4, [[2]]], [0, "|"]]], [0, "]"]]]


def rand_chunks(rng, depth):
    out = []
    for _ in range(rng.range(1, 3)):
        k = rng.below(6)
        if k == 0:
            out.append([0, "".join(rng.choice("ab -:[]x") for _ in range(rng.range(1, 3)))])
        elif k == 1:
            out.append([1])
        elif k == 2:
            out.append([2])
        elif k == 3 or depth == 0:
            out.append([0, "-"])
        elif rng.chance(1, 3):
            out.append([5, rng.choice(SPECS), rand_chunks(rng, depth - 1)])
        else:
            out.append([4, rand_chunks(rng, depth - 1)])
    return out


def corpus():
    return [
        pcase((None, None, None), 0, True, True, False, chunks_hl(), 1),
        pcase(("1", None, None), 0, True, True, False, chunks_hl(), 1),       # finding: silent on a tty
        pcase((None, "1", None), 1, True, True, False, chunks_hl(), 2),       # finding: writes to a pipe
        pcase(("1", "1", None), 0, False, True, True, chunks_hl(), 3),        # NO_COLOR beats FORCE
        pcase(("0", "1", "0"), 1, False, False, False, chunks_hl(), 5),       # FORCE beats CLICOLOR=0
        [0, 2, 5, 1],
        [2, width_patterns(spec(mx=1))[0], 1, "a"],                              # seeded C18-2
        [2, width_patterns(spec(mx=5))[1], 1, "abcde"],
        pcase((None, "1", None), 0, False, False, False, [[4, [[1], [0, " "], [2]]]], 2),   # seeded C18-4
        pcase((None, None, None), 0, False, True, True, [[2]], 3),
    ]


def cases(rng, tier):
    out = []
    for t in range(9):
        for b in range(9):
            for i in range(3):
                out.append([0, t, b, i])
    vals = [None, "0", "1"]
    envs = [(a, b, c) for a in vals for b in vals for c in vals]
    pats = [(chunks_plain(), 3)] + [(chunks_hl(), lv) for lv in range(1, 6)]
    thorough = tier != "quick"
    for env in envs:
        for target in (0, 1):
            for tty_only in (False, True):
                for out_tty in (False, True):
                    for err_tty in (False, True):
                        for (chunks, lv) in pats:
                            out.append(pcase(env, target, tty_only, out_tty, err_tty, chunks, lv))
    # (iii) highlight groups with a format spec, through AnsiWriter<Vec<u8>> ...
    for sp in SPECS:
        for pat in width_patterns(sp):
            for msg in WIDTH_MSGS:
                for lv in range(1, 6):
                    out.append([2, pat, lv, msg])
    # ... and a subset through real console appenders
    for sp in (spec(mx=5), spec(mn=8, mx=8), spec(mn=8, right=True), spec(mn=6, mx=8, right=True, fill="_")):
        for pat in width_patterns(sp):
            for msg in ("abc", "abcde", "abcdefgh"):
                for lv in (1, 4):
                    for env in ((None, None, None), (None, "1", None), ("1", None, None)):
                        for t in (False, True):
                            out.append(pcase(env, 0, False, t, t, pat + [[3]], lv, msg))
    # (iv) no trailing newline: the record must be on the stream when append returns
    k = 0
    for env in envs:
        for target in (0, 1):
            for tty_only in (False, True):
                for tgt_tty in (False, True):
                    out_tty, err_tty = (tgt_tty, not tgt_tty) if target == 0 else (not tgt_tty, tgt_tty)
                    for chunks in ([[2]], [[4, [[1], [0, " "], [2]]]], [[4, [[1], [0, " "], [2], [3]]]]):
                        k += 1
                        out.append(pcase(env, target, tty_only, out_tty, err_tty, chunks, (2, 4, 1)[k % 3], "prompt> "))
    # other values, nested groups, non-ASCII messages
    odd = [None, "0", "1", "", "00", "yes", "false", " 0", "0 ", b"\xff", "é", "0\n", "\t0", "\u00a00", "0\u3000", "+0", "0.0"]
    for _ in range(400 if not thorough else 6000):
        env = tuple(rng.choice(odd) for _ in range(3))
        out.append(pcase(env, rng.below(2), rng.chance(1, 2), rng.chance(1, 2), rng.chance(1, 2),
                         rand_chunks(rng, 2) + [[3]], rng.range(1, 5),
                         rng.choice(["hello", "", "naïve \U0001f600", "a\nb", "x" * 300])))
    return out


def nontrivial(c):
    return c[0] in (1, 2) or any(c[1:])


def classify(c):
    if c[0] == 0:
        return "style"
    if c[0] == 2:
        return "ansiwriter pattern"
    _, env, target, tty_only, out_tty, err_tty, chunks, lv, msg = c
    return "proc target=%s tty_only=%d tty=%d" % ("out" if target == 0 else "err", tty_only,
                                                  out_tty if target == 0 else err_tty)


def _b(x):
    return x if isinstance(x, (bytes, bytearray)) else x.encode("utf-8")


def render_pattern(chunks):
    s = ""
    for ch in chunks:
        if ch[0] == 0:
            s += _b(ch[1]).decode("utf-8")
        elif ch[0] == 1:
            s += "{l}"
        elif ch[0] == 2:
            s += "{m}"
        elif ch[0] == 3:
            s += "{n}"
        elif ch[0] == 4:
            s += "{h(" + render_pattern(ch[1]) + ")}"
        else:
            mn, mx, right, fill = ch[1]
            fill = _b(fill).decode("utf-8")
            sp = ""
            if mn or right or fill != " ":
                sp += (fill if fill != " " else "") + (">" if right else "<")
            if mn:
                sp += str(mn - 1)
            if mx:
                sp += "." + str(mx - 1)
            s += "{h(" + render_pattern(ch[2]) + "):" + sp + "}"
    return s


def has_spec(chunks):
    return any(ch[0] == 5 or (ch[0] in (4, 5) and has_spec(ch[-1])) for ch in chunks)


def describe(c):
    if c[0] == 0:
        cols = [None, "Black", "Red", "Green", "Yellow", "Blue", "Magenta", "Cyan", "White"]
        return {"set_style": {"text": cols[c[1]], "background": cols[c[2]], "intense": [None, False, True][c[3]]}}
    if c[0] == 2:
        return {"ansiwriter_pattern": render_pattern(c[1]), "level": LEVELS[c[2]], "message": _b(c[3]).decode("utf-8")}
    _, env, target, tty_only, out_tty, err_tty, chunks, lv, msg = c
    return {"env": {n: (_b(v[0]).decode("utf-8", "backslashreplace") if v else None) for n, v in zip(ENV_NAMES, env)},
            "target": "stdout" if target == 0 else "stderr", "tty_only": bool(tty_only),
            "stdout": "pty" if out_tty else "pipe", "stderr": "pty" if err_tty else "pipe",
            "pattern": render_pattern(chunks), "level": LEVELS[lv], "message": _b(msg).decode("utf-8")}


# ---------------------------------------------------------------- running the real crate

def _stream(is_tty):
    """returns (parent_read_fd, child_fd)"""
    if is_tty:
        m, s = pty.openpty()
        tty.setraw(s)
        return m, s
    r, w = os.pipe()
    return r, w


def _drain(fds, proc, limit=15.0):
    bufs = {fd: b"" for fd in fds}
    live = set(fds)
    import time
    t_end = time.time() + limit
    while live:
        left = t_end - time.time()
        if left <= 0:
            break
        rd, _, _ = select.select(list(live), [], [], min(left, 1.0))
        for fd in rd:
            try:
                d = os.read(fd, 65536)
            except OSError:          # EIO: the slave side of the pty is closed
                d = b""
            if d:
                bufs[fd] += d
            else:
                live.discard(fd)
    return [bufs[fd] for fd in fds], not live


def run_child(exe, c):
    _, env, target, tty_only, out_tty, err_tty, chunks, lv, msg = c
    e = {"PATH": os.environ.get("PATH", "/usr/bin:/bin")}
    # the terminal type is not part of the policy: children run with TERM unset / dumb / xterm-256color / vt100
    term = [None, "dumb", "xterm-256color", "vt100"][(len(_b(msg)) + lv + int(target) + 2 * int(out_tty) + int(err_tty) + len(env[0] or ())) % 4]
    if term is not None:
        e["TERM"] = term
    for name, v in zip(ENV_NAMES, env):
        if v:
            e[name] = _b(v[0])
    e = {os.fsencode(k): (v if isinstance(v, bytes) else os.fsencode(v)) for k, v in e.items()}
    o_r, o_w = _stream(out_tty)
    e_r, e_w = _stream(err_tty)
    try:
        mode = str(target)
        if not tty_only and target in (0, 1) and (len(_b(msg)) + lv + int(out_tty) + 2 * int(err_tty)) % 3 == 0:
            # every third unrestricted case: the stream's ConsoleWriter is the encoder's writer DIRECTLY (no lock())
            mode = str(4 + int(target))
        p = subprocess.Popen([exe, "child", mode, str(int(tty_only)), _b(render_pattern(chunks)).hex(),
                              str(lv), _b(msg).hex()],
                             stdin=subprocess.DEVNULL, stdout=o_w, stderr=e_w, env=e, close_fds=True)
    finally:
        os.close(o_w)
        os.close(e_w)
    try:
        (out, err), done = _drain([o_r, e_r], p)
        if not done:
            p.kill()
            return "xhang"
        rc = p.wait(timeout=15)
    except subprocess.TimeoutExpired:
        p.kill()
        return "xhang"
    finally:
        os.close(o_r)
        os.close(e_r)
    if rc != 0:
        return "x" + (b"exit:%d:" % rc + err[:200]).hex()
    return "(x%s x%s)" % (out.hex(), err.hex())


def run_impl(ctx, cases_, lines):
    vc = ctx["vc"]
    exe = ctx["vh"]
    res = [None] * len(cases_)
    idx0 = [i for i, c in enumerate(cases_) if c[0] in (0, 2)]
    got = vc.run_lines([exe], [lines[i] if cases_[i][0] == 0 else
                               vc.show([2, render_pattern(cases_[i][1]), cases_[i][2], cases_[i][3]])
                               for i in idx0], timeout_per_batch=300)
    for i, g in zip(idx0, got):
        res[i] = g
    idx1 = [i for i, c in enumerate(cases_) if c[0] == 1]
    with concurrent.futures.ThreadPoolExecutor(max_workers=12) as ex:
        for i, g in zip(idx1, ex.map(lambda i: run_child(exe, cases_[i]), idx1)):
            res[i] = g
    return res


def _unicode_or_unset(v):
    if not v:
        return []
    try:
        _b(v[0]).decode("utf-8")
        return [v[0]]
    except UnicodeDecodeError:
        return []          # std::env::var -> Err(NotUnicode) -> the default, as for an unset variable


def model_lines(ctx, cases_, lines, impl_lines):
    vc = ctx["vc"]
    out = []
    for c, line in zip(cases_, lines):
        if c[0] != 1:
            out.append(line)
        else:
            out.append(vc.show([1, [_unicode_or_unset(v) for v in c[1]]] + list(c[2:])))
    return out


# ---------------------------------------------------------------- independent oracles

def sgr_decode(seq, state):
    """ECMA-48 reading of one SGR sequence; returns the new (text, background, intense) or None"""
    m = SGR_RE.fullmatch(seq)
    if not m or not re.fullmatch(rb"\d+(;\d+)*", m.group(1)):
        return None
    text, bg, inten = state
    for p in m.group(1).split(b";"):
        n = int(p)
        if n == 0:
            text, bg, inten = 0, 0, 0
        elif n == 1:
            inten = 2
        elif n == 22:
            inten = 1
        elif 30 <= n <= 37:
            text = n - 30 + 1
        elif 40 <= n <= 47:
            bg = n - 40 + 1
        else:
            return None
    return (text, bg, inten)


def style_oracle(c, iv):
    if not isinstance(iv, bytes) or iv == b"panic":
        return "set_style failed: %r" % (iv,)
    want = (c[1], c[2], c[3])
    if iv.count(b"\x1b") != 1:
        return "not exactly one escape sequence: %r" % iv
    for st in ((0, 0, 0), (8, 8, 2), (3, 5, 1)):
        got = sgr_decode(iv, st)
        if got is None:
            return "not a well-formed SGR sequence: %r" % iv
        if got != want:
            return "sequence %r sets %r from state %r, requested %r" % (iv, got, st, want)
    return None


def _active(v):
    v = _unicode_or_unset(v)
    return bool(v) and _b(v[0]) != b"0"


def _is_zero(v):
    v = _unicode_or_unset(v)
    return bool(v) and _b(v[0]) == b"0"


def colour_mode(env):
    if _active(env[0]):
        return "never"
    if _active(env[1]):
        return "always"
    return "never" if _is_zero(env[2]) else "auto"


def expected_tokens(chunks, lv, msg, colour):
    """('t', bytes) text and ('s',)/('r',) style request / reset, from the property's wording"""
    toks = []
    for ch in chunks:
        if ch[0] == 0:
            toks.append(("t", _b(ch[1])))
        elif ch[0] == 1:
            toks.append(("t", LEVELS[lv].encode()))
        elif ch[0] == 2:
            toks.append(("t", _b(msg)))
        elif ch[0] == 3:
            toks.append(("t", b"\n"))
        else:
            inner = expected_tokens(ch[-1], lv, msg, colour)
            if colour and lv in STYLED:
                toks += [("s",)] + inner + [("r",)]
            else:
                toks += inner
    return toks


def _merge(toks):
    out = []
    for t in toks:
        if t[0] == "t":
            if not t[1]:
                continue
            if out and out[-1][0] == "t":
                out[-1] = ("t", out[-1][1] + t[1])
                continue
        out.append(t)
    return out


def proc_oracle(c, iv):
    """the property's own wording, independent of the model; returns (text, is_write_decision)"""
    _, env, target, tty_only, out_tty, err_tty, chunks, lv, msg = c
    if not (isinstance(iv, list) and len(iv) == 2):
        return ("child failed: %r" % (iv,), False)
    stream, other = (iv[0], iv[1]) if target == 0 else (iv[1], iv[0])
    tty_ = bool(out_tty if target == 0 else err_tty)
    if other != b"":
        return ("bytes on the stream that is not the target: %r" % other, False)
    must_write = tty_ if tty_only else True
    if not must_write:
        if stream != b"":
            return ("tty_only appender wrote %d bytes to a non-terminal" % len(stream), True)
        return (None, False)
    if stream == b"":
        return ("appender is silent although %s" % ("its target is a terminal" if tty_only else "it is unrestricted"), True)
    colour = (not _active(env[0])) and (_active(env[1]) or ((not _is_zero(env[2])) and tty_))
    d = shape_check(stream, chunks, lv, msg, colour)
    return (d, False)


def shape_check(stream, chunks, lv, msg, colour):
    """tokenise into text / style request / reset with the independent SGR reader and compare with
    what the pattern tree requires"""
    toks, pos = [], 0
    state = (5, 5, 2)
    for m in SGR_RE.finditer(stream):
        if m.start() > pos:
            toks.append(("t", stream[pos:m.start()]))
        new = sgr_decode(m.group(0), state)
        if new is None:
            return "malformed SGR sequence %r" % m.group(0)
        toks.append(("r",) if new == (0, 0, 0) else ("s",))
        state = new
        pos = m.end()
    if pos < len(stream):
        toks.append(("t", stream[pos:]))
    if any(b"\x1b" in t[1] for t in toks if t[0] == "t"):
        return "stray ESC outside a well-formed SGR sequence: %r" % stream
    has_sgr = any(t[0] != "t" for t in toks)
    if has_sgr and not colour:
        return "escape sequences although colour is disabled: %r" % stream
    want = _merge(expected_tokens(chunks, lv, msg, colour))
    got = _merge(toks)
    if has_spec(chunks):
        # widths truncate / pad the text (C10's subject): only the style requests and resets, in order
        want = [t for t in want if t[0] != "t"]
        got = [t for t in got if t[0] != "t"]
        if got != want:
            return ("stream %r has style requests / resets %r, the pattern's highlight groups require %r "
                    "(every highlighted group is followed by a reset)" % (stream, got, want))
        return None
    if got != want:
        return "stream %r does not have the shape %r (text / style request / reset)" % (stream, want)
    return None


def ansi_oracle(c, iv):
    if not isinstance(iv, bytes) or iv == b"panic":
        return "encode into AnsiWriter failed: %r" % (iv,)
    return shape_check(iv, c[1], c[2], c[3], True)


def in_known_class(c):
    return c[0] == 1 and bool(c[3]) and colour_mode(c[1]) != "auto"


def judge(c, iv, mv):
    """('ok', None) | ('fail', text): the property fails on this case | ('corr', text): the property
    holds but the bytes are not the model's (the model no longer describes the code)"""
    d = style_oracle(c, iv) if c[0] == 0 else ansi_oracle(c, iv) if c[0] == 2 else proc_oracle(c, iv)[0]
    if d is not None:
        return ("fail", d + ("" if iv == mv else " [model: %r]" % (mv,)))
    if iv != mv:
        if in_known_class(c):
            # the recorded finding does not reproduce on this case and the property holds: quiet
            return ("ok", None)
        return ("corr", "property oracle passes but impl %r != model %r on case %r" % (iv, mv, describe(c)))
    return ("ok", None)


def compare(c, iv, mv):
    k, d = judge(c, iv, mv)
    return d if k == "fail" else None


def _wrote(c, v):
    if not (isinstance(v, list) and len(v) == 2):
        return None
    return (v[0] if c[2] == 0 else v[1]) != b""


def known_finding(c, iv, mv):
    # only the recorded deviation: inside the class, what the property oracle objects to is the write
    # decision, and the crate decides exactly as the faithful model predicts
    if in_known_class(c) and _wrote(c, iv) is not None and _wrote(c, iv) == _wrote(c, mv):
        d, is_decision = proc_oracle(c, iv)
        if d is not None and is_decision:
            return FINDING
    return None


def extra_checks(ctx, cases_, impl_lines, model_lines_):
    """DESIGN 2.4: if no case violates the property but some outputs differ from the model (e.g. a
    different colour for a level), the correspondence itself is broken"""
    vc = ctx["vc"]
    corr = None
    for c, il, ml in zip(cases_, impl_lines, model_lines_):
        try:
            iv, mv = vc.parse(il), vc.parse(ml)
        except Exception:
            return []
        k, d = judge(c, iv, mv)
        if k == "fail" and known_finding(c, iv, mv) is None:
            return []          # a real failing input exists and is reported by the per-case comparison
        if k == "corr" and corr is None:
            corr = d
    if corr is not None:
        raise vc.Broken("corr:C18/stream-bytes", corr)
    return two_appender_checks(ctx)


def two_appender_checks(ctx):
    """One process with a console appender on EACH stream (built in either order), the streams differing
    in being a terminal: each stream must carry exactly what a process with only that appender writes
    (which the per-case comparison ties to the model).  A decision cached per process instead of per
    stream (isatty, colour) shows here and nowhere else."""
    vc = ctx["vc"]
    exe = ctx["vh"]
    rng = vc.Rng(ctx["seed"] * 31 + 5)
    envs = [(None, None, None), (None, None, None), ("1", None, None), (None, "1", None), (None, None, "0"),
            (None, "0", "1")]
    jobs = []
    for env in envs:
        for tty_only in (0, 1):
            for (o, e) in ((1, 0), (0, 1)):
                chunks = chunks_hl() if rng.chance(2, 3) else chunks_plain()
                lv = rng.range(1, 5)
                for tgt in (0, 1, 2, 3):
                    jobs.append(pcase(env, tgt, tty_only, o, e, chunks, lv))
    with concurrent.futures.ThreadPoolExecutor(max_workers=12) as ex:
        got = list(ex.map(lambda c: run_child(exe, c), jobs))
    res = []
    for k in range(0, len(jobs), 4):
        try:
            r0, r1, r2, r3 = (vc.parse(g) for g in got[k:k + 4])
        except Exception:
            res.append(("two console appenders in one process: a child did not finish normally: %r" % (got[k:k + 4],),
                        {"case": describe(jobs[k])}))
            break
        want = [r0[0], r1[1]]
        for name, r in (("stdout appender built first", r2), ("stderr appender built first", r3)):
            if [r[0], r[1]] != want:
                res.append(("two console appenders in one process (%s): streams (stdout, stderr) carry %r; a process with "
                            "only the stdout appender writes %r to stdout and one with only the stderr appender "
                            "writes %r to stderr" % (name, [bytes(r[0]), bytes(r[1])], bytes(r0[0]), bytes(r1[1])),
                            {"case": describe(jobs[k]), "order": name}))
                break
        if res:
            break
    ctx.setdefault("xcheck", {})["two_appender_processes"] = len(jobs)
    if res:
        return res
    # the stdout stream RE-POINTED (dup2) between two appenders of one process: terminal -> pipe and pipe -> terminal.
    # Reference: a process with one stdout appender whose stdout has always been that kind of stream.
    jobs2 = []
    for env in envs:
        for tty_only in (0, 1):
            chunks = chunks_hl() if rng.chance(2, 3) else chunks_plain()
            lv = rng.range(1, 5)
            for first_tty in (1, 0):
                jobs2.append((pcase(env, 0, tty_only, 1, 0, chunks, lv), pcase(env, 0, tty_only, 0, 1, chunks, lv),
                              pcase(env, 6, tty_only, first_tty, 1 - first_tty, chunks, lv), first_tty))
    flat = [j for t in jobs2 for j in t[:3]]
    with concurrent.futures.ThreadPoolExecutor(max_workers=12) as ex:
        got2 = list(ex.map(lambda c: run_child(exe, c), flat))
    for k, (ct, cp, cs, first_tty) in enumerate(jobs2):
        try:
            rt, rp, rs = (vc.parse(g) for g in got2[3 * k:3 * k + 3])
        except Exception:
            res.append(("stdout re-pointed between two appenders: a child did not finish normally: %r" % (got2[3 * k:3 * k + 3],),
                        {"case": describe(cs)}))
            break
        on_tty, on_pipe = bytes(rt[0]), bytes(rp[0])
        want = [on_tty, on_pipe] if first_tty else [on_pipe, on_tty]
        if [bytes(rs[0]), bytes(rs[1])] != want:
            res.append(("one process, fd 1 re-pointed (dup2) from a %s to a %s between two stdout appenders: the first stream "
                        "carries %r and the second %r; appenders of processes whose stdout has always been a terminal / a "
                        "pipe write %r / %r" % ((("terminal", "pipe") if first_tty else ("pipe", "terminal"))
                                                + (bytes(rs[0]), bytes(rs[1]), on_tty, on_pipe)),
                        {"case": describe(cs)}))
            break
    ctx["xcheck"]["repointed_stdout_processes"] = len(jobs2)
    return res
