"""C20 — size and interval literals: exact value, rejection of bad / overflowing ones.
case: ( kind form payload fmt )
  kind 0 SizeTriggerConfig.limit | 1 TimeTriggerConfig.interval | 2 RawConfig.refresh_rate (forms 2/3 only;
       impl result ( crate humantime ), model result (2): compared by `compare`, not by equality)
  form 0 integer scalar (payload Z) | 1 float scalar (payload literal text) |
       2 quoted string (payload code points) | 3 YAML plain scalar (payload code points) |
       4 integer scalar in an alternative YAML spelling (payload ( Z text ))
  fmt 0 serde_yaml | 1 serde_json | 2 toml (integer scalars inside i64 - they reach the visitor as i64 -
       and quoted strings only)
result: (0) rejected | (1 limit) | (1 unit n)"""
import itertools
from vcommon import Zv

RULE = ("refresh_rate family (direct oracle, not a Coq model): the literal is deserialised as RawConfig.refresh_rate "
        "(YAML and JSON) and the Duration must equal what the humantime crate returns for the SAME literal, and, "
        "for literals made of integers and documented units, an independent table (ns us ms s/sec/second(s) "
        "m/min/minute(s) h/hr/hour(s) d/day(s) w/week(s) M/month(s)=30.44d y/year(s)=365.25d; sums such as '1h 30m'); "
        "case variants of documented units that are not units themselves must be rejected. Literals: every unit "
        "spelling as given / upper / lower / mixed case, with and without spaces, sums, bare numbers, '0', junk, "
        "overflowing numbers. size/interval families - exhaustive part: every letter case of every unit spelling (9 size spellings = 50 casings, 14 interval "
        "spellings = 648 casings) x numbers {0, 1, 1023, 1024, every overflow threshold floor(2^64/mult)-1/0/+1, "
        "floor(2^63/mult)-1/0/+1, 2^63-1/0/+1, 2^64-1/0/+1, 10^19, 20 nines, 25 digits, leading zeros}; every "
        "white-space placement (none, space, tab, several, NBSP, U+2003/U+3000, LF, U+0085, trailing variants) x every "
        "unit; integer scalars at every threshold +-1 and their negatives, out-of-range integers, alternative YAML "
        "integer spellings (+n, 0x, 0o), float literals, $ENV{..} / ${..} / %..% references to variables that are set in the "
        "process (nothing is expanded inside a literal), numbers zero-padded to 19..77 digits, junk suffixes / prefixes (unknown units, fractions, signs, "
        "leading white space, non-ASCII look-alikes such as KELVIN SIGN and LONG S, non-ASCII digits); each through "
        "serde_yaml and serde_json, string scalars quoted and (where the text is a safe plain scalar) unquoted; then "
        "random compositions number+ws+unit-ish+ws. The casing x number product is taken in full (quick: one front-end per "
        "literal chosen at random, thorough: both). non-trivial = integer/float scalar, or a string with a non-empty digit prefix (the parser gets "
        "past its first rejection); distinct = distinct case line")
ASSUMPTIONS = ["refresh_rate: humantime 2.4.0 (third party) is the oracle, it is not modelled in Coq; the log4rs logic checked "
               "here is only 'the literal reaches humantime unchanged and humantime's errors are rejections'",
               "serde_yaml 0.9 / serde_json 1.0 hand a scalar to the visitor as modelled: integers in [0,2^64) to "
               "visit_u64, in [-2^63,0) to visit_i64, other numbers (floats, wider integers) to a visitor method the "
               "config types do not implement (rejected), strings to visit_str unchanged",
               "the other TimeTriggerConfig fields keep their defaults (the harness asserts it)"]
RELEASE_TOO = True          # the sampled cases also run through the release-profile harness (see ./check)
EXHAUSTIVE = {"quick": False, "thorough": False}
TRUSTED = ["humantime 2.4.0 as the oracle of the refresh_rate family (direct comparison on the same literal)",
           "serde / serde_yaml / serde_json scalar resolution (modelled by the scalar form handed to the visitor, exercised "
           "on every case)", "Debug rendering of SizeTriggerConfig (read-back of the private limit)",
           "TimeTriggerConfig::verif_parts hook"]

T64, T63 = 1 << 64, 1 << 63
SIZE_UNITS = [("b", 1), ("kb", 1 << 10), ("kib", 1 << 10), ("mb", 1 << 20), ("mib", 1 << 20),
              ("gb", 1 << 30), ("gib", 1 << 30), ("tb", 1 << 40), ("tib", 1 << 40)]
INT_WORDS = ["second", "minute", "hour", "day", "week", "month", "year"]
INT_UNITS = [w + s for w in INT_WORDS for s in ("", "s")]
WS_MID = ["", " ", "\t", "  ", " \t  ", " ", " 　", "\n", "\u0085", "  ", "\r\n", "\x0b\x0c"]
WS_END = ["", " ", "\t", "  \t", " ", "\n"]
JUNK_UNITS = ["wee\u212a", "wee\u212as", "WEE\u212aS", "\u212ab", "\u212aib", "wee\u043a",   # KELVIN SIGN / Cyrillic ka for k
              "k", "kbx", "bb", "kb1", "k b", "ki b", "kibb", "pb", "eb", "kbit", "bytes", "byte", "kilobytes",
              "Kb", "Kib", "kıb", "ｋｂ", "μb", "kb.", "kb,", "kb/s", ".kb", "kb kb",
              "sec", "s", "min", "h", "d", "w", "m", "y", "ms", "secondss", "second s", "dayſ", "hrs", "fortnight",
              "weeks.", "month(s)", "years ago", "mon th", "нay", "dаy", "-", "+", "_", "%", "e3", "E3kb",
              ".5kb", ".5", ".0", ".", ",5kb", "_000", "_000kb", " 000", " 5", " 5 kb", "x10", "\x00kb", "kb\x00",
              "​kb", "kb​", "﻿kb", "᠎kb", "\U0001F600", "ḱb", "'kb'", "\"kb\"", "\\kb"]
JUNK_PREFIX = ["-", "+", " ", "\t", " ", "0x", "٣", "５", "٥", ".", "~", "−", "--", "- ", "\n"]
FLOATS_BOTH = ["1.5", "1e3", "10.0", "-0.0", "1E2", "0.0", "1.0e0", "1024.0", "5e-1", "-1.5", "1e19", "1e400",
               "18446744073709551615.0", "2.5E+2"]
FLOATS_YAML = [".5", "1.", ".inf", "-.inf", ".nan", "+1.5", "+.inf", ".NaN", ".Inf", "1_000.5"]
FLOATS_JSON = ["-0", "1E+2", "1e-0", "0e0", "123456789012345678901234567890"]


def cps(s):
    return [ord(c) for c in s]


def casings(word):
    return ["".join(t) for t in itertools.product(*[(c.lower(), c.upper()) if c.isalpha() else (c,) for c in word])]


def size_numbers(mult):
    ns = [0, 1, 7, 1023, 1024, T64 // mult - 1, T64 // mult, T64 // mult + 1, T63 // mult - 1, T63 // mult,
          T63 // mult + 1, T63 - 1, T63, T63 + 1, T64 - 1, T64, T64 + 1, 10 ** 19, 10 ** 20 - 1, 10 ** 24 + 5,
          # beyond 64 bits: around 2^128 / mult and 2^128 (a product computed in a wider type and narrowed)
          (1 << 128) // mult - 1, (1 << 128) // mult, (1 << 128) // mult + 1, (1 << 127), (1 << 128) - 1, 1 << 128,
          (1 << 128) + 1, 10 ** 27, 10 ** 38, 10 ** 39, (1 << 64) * 1024, ((1 << 64) // mult) * (1 << 64)]
    return sorted(set(ns))


INT_NUMBERS = sorted(set([0, 1, 7, 60, T63 - 2, T63 - 1, T63, T63 + 1, (1 << 31) - 1, 1 << 31, (1 << 32), T64 - 1, T64,
                          T64 + 1, 10 ** 18, 10 ** 19, 10 ** 20 - 1, 10 ** 24 + 5]))


def plain_safe(s):
    """text that YAML reads back unchanged as a plain scalar and resolves to a string"""
    if not s or not s[0].isdigit() or s[-1] == " ":
        return False
    if not all(c.isascii() and (c.isalnum() or c == " ") for c in s):
        return False
    if "  " in s or s.isdigit():
        return False
    low = s.lower()
    # digits followed by e<digits> would be a float, 0x../0o../0b.. an integer
    rest = low.lstrip("0123456789")
    if rest[:1] == "e" and rest[1:].isdigit():
        return False
    if low[:2] in ("0x", "0o", "0b"):
        return False
    return True


def str_cases(kind, text, fmts=(0, 1), plain=True):
    out = [[kind, 2, cps(text), f] for f in fmts]
    if plain and plain_safe(text):
        out.append([kind, 3, cps(text), 0])
    return out


HT_UNITS = {"ns": 1, "nsec": 1, "us": 10 ** 3, "usec": 10 ** 3, "ms": 10 ** 6, "msec": 10 ** 6}
for _w, _m in (("s sec second seconds", 1), ("m min minute minutes", 60), ("h hr hour hours", 3600),
               ("d day days", 86400), ("w week weeks", 604800), ("M month months", 2630016),
               ("y year years", 31557600)):
    for _u in _w.split():
        HT_UNITS[_u] = _m * 10 ** 9
# spellings humantime 2.4 accepts beyond the documented table: the table abstains on them
HT_EXTRA = {"nanos", "millis", "secs", "mins", "hrs", "wk", "wks", "yr", "yrs"}
_HT_LOWER = {}
for _u in HT_UNITS:
    _HT_LOWER.setdefault(_u.lower(), set()).add(_u)


def ht_table(text):
    """independent reading of a duration literal: ('ok', secs, nanos) | ('reject',) | None (abstain)"""
    import re
    if text == "0":
        return ("ok", 0, 0)
    if text.strip(" ") == "":
        return ("reject",)
    if text.strip(" ").isdigit():
        return ("reject",)           # a number needs a unit
    if not re.fullmatch(r"(?: *[0-9]+ *[A-Za-z]+)+ *", text):
        return None
    total = 0
    verdict = "ok"
    for n, u in re.findall(r"([0-9]+) *([A-Za-z]+)", text):
        if int(n) >= 10 ** 9:
            return None              # overflow territory: left to humantime
        if u in HT_UNITS:
            total += int(n) * HT_UNITS[u]
        elif u in HT_EXTRA or u.lower() in HT_EXTRA:
            return None
        elif u.lower() in _HT_LOWER:
            verdict = "reject"       # a case variant of a documented unit that is not a unit itself
        else:
            return None
    if verdict == "reject":
        return ("reject",)
    return ("ok", total // 10 ** 9, total % 10 ** 9)


def mixed_cases(u, rng):
    out = {u, u.upper(), u.lower(), u.capitalize(), u.swapcase()}
    if len(u) > 1:
        out.add(u[0] + u[1:].upper())
        out.add("".join(c.upper() if rng.chance(1, 2) else c.lower() for c in u))
    return sorted(out)


def refresh_cases(rng, tier):
    out = []
    units = sorted(HT_UNITS) + sorted(HT_EXTRA)
    nums = [0, 1, 2, 30, 90, 1000, 86400, 10 ** 6]
    for u in units:
        for cs in mixed_cases(u, rng):
            for sp in ("", " ", "  "):
                n = rng.choice(nums) if sp else 1
                out += str_cases(2, "%d%s%s" % (n, sp, cs))
            out += str_cases(2, "%d%s" % (rng.choice(nums), cs), fmts=(rng.below(2),))
    # capital M (months) against m (minutes), alone and in sums
    for t in ("1M", "2 M", "1M 1m", "1m 1M", "3M 2w 1d", "1y 2M 3w 4d 5h 6m 7s 8ms 9us 10ns", "1h 30m", "1h30m",
              "1hour 30min", "2 hours 15 minutes", "1 month", "1 MONTH", "1 Month", "5 MIN", "5 min", "30 Seconds",
              "30 seconds", "1H", "1D", "1W", "1Y", "1S", "1MS", "1Ms", "1mS", "1US", "1NS", "1 m", "1 M ", " 1M",
              "12 months", "12 M", "12 m", "1m1M1m", "1 s 1 S"):
        out += str_cases(2, t)
    # sums of documented units
    for _ in range(150 if tier == "quick" else 3000):
        k = rng.range(1, 4)
        parts = []
        for _i in range(k):
            u = rng.choice(sorted(HT_UNITS))
            if rng.chance(1, 5):
                u = rng.choice(mixed_cases(u, rng))
            parts.append("%d%s%s" % (rng.choice(nums + [rng.below(10 ** 4)]), rng.choice(["", " "]), u))
        out += str_cases(2, rng.choice(["", " "]).join(parts), fmts=(rng.below(2),))
    # bare numbers, zero, empty, junk, fractions, overflow
    for t in ("0", "00", "5", "30", " 30 ", "", " ", "s", "M", "m", "1", "1 ", "-1s", "+1s", "1.5s", "1.5h", "0.5M",
              "1,5s", "1 s s", "1ss", "1 sm", "1sM", "1x", "1 fortnight", "1µs", "1μs", "1 µs", "1m 30", "30 1m",
              "18446744073709551615s", "18446744073709551616s", "18446744073709551615ns", "307445734561825861m",
              "307445734561825860m", "18446744073709551615s 1s", "584554531y", "584554530y", "1e3s", "0x10s", "1_000s",
              "1s\t1m", "1\ts", "1s#", "１s", "1ｓ", "1 ﻿s", "1s ", "1\u00a0s"):
        out += str_cases(2, t.encode().decode("unicode_escape") if "\\" in t else t)
    return out


def _ht_expect(tbl):
    return [0] if tbl == ("reject",) else [1, tbl[1], tbl[2]]


def compare(c, iv, mv):
    kind, form, p, fmt = c
    if kind != 2:
        return None if iv == mv else "impl != model"
    if not isinstance(iv, list) or len(iv) != 2:
        return "refresh_rate: deserialisation did not return normally: %r" % (iv,)
    got, direct = iv
    text = "".join(chr(x) for x in p)
    if got != direct:
        return "refresh_rate %r: RawConfig holds %r, humantime::parse_duration(%r) = %r" % (text, got, text, direct)
    tbl = ht_table(text)
    if tbl is not None and got != _ht_expect(tbl):
        return "refresh_rate %r: RawConfig holds %r, the documented unit table says %r" % (text, got, _ht_expect(tbl))
    return None


def _corpus0():
    out = []
    for t in ("1M", "1m", "1M 1m", "30 seconds", "30 Seconds", "5 MIN"):
        out += str_cases(2, t)
    for k in (0, 1):
        for f in (0, 1):
            for t in ("10 KiB ", "17179869184gb", "1.5kb", "-1", "1Kb", "1 ", "3 Weeks", "9223372036854775808",
                      "18014398509481984kb", "18014398509481983kb", " 5", "5"):
                out.append([k, 2, cps(t), f])
            for z in (T64 - 1, T64, T63, T63 - 1, -1, 0):
                out.append([k, 0, Zv(z), f])
    return out


def _cases0(rng, tier):
    out = refresh_cases(rng, tier)
    thorough = tier == "thorough"
    # 1. every casing of every unit x numbers
    for kind, units in ((0, SIZE_UNITS), (1, [(u, None) for u in INT_UNITS])):
        for (u, mult) in units:
            nums = size_numbers(mult) if kind == 0 else INT_NUMBERS
            for cs in casings(u):
                for n in nums:
                    w = rng.choice(WS_MID[:5]) if not rng.chance(1, 2) else ""
                    out += str_cases(kind, "%d%s%s" % (n, w, cs), fmts=((0, 1) if thorough else (rng.below(2),)))
            # every number with the canonical lower-case spelling, both front-ends
            for n in nums:
                out += str_cases(kind, "%d%s" % (n, u)) + str_cases(kind, "%d %s" % (n, u.upper()), fmts=(rng.below(2),))
    # 2. every white-space placement x every unit
    for kind, units in ((0, [u for u, _ in SIZE_UNITS]), (1, INT_UNITS)):
        for u in units:
            for wm in WS_MID:
                for we in WS_END:
                    cs = rng.choice(casings(u))
                    n = rng.choice([0, 1, 5, 1024, 4096, 10 ** rng.below(12)])
                    out += str_cases(kind, "%d%s%s%s" % (n, wm, cs, we), fmts=(rng.below(2),))
        # white space only after the number, before it, inside the unit
        for wm in WS_MID[1:]:
            out += str_cases(kind, "5" + wm, plain=False)
            out += str_cases(kind, wm + "5", plain=False)
            out += str_cases(kind, wm + "5" + units[1], plain=False)
            out += str_cases(kind, "5" + units[1][:1] + wm + units[1][1:], plain=False)
    # 3. bare numbers as strings (leading zeros too) and integer scalars
    for kind in (0, 1):
        allnums = sorted(set(INT_NUMBERS + [n for _, m in SIZE_UNITS for n in size_numbers(m)]))
        for n in allnums:
            out += str_cases(kind, str(n))
            out += str_cases(kind, "000" + str(n), fmts=(rng.below(2),))
            for z in (n, -n, n + 1, -(n + 1)):
                if abs(z) >= 1 << 128:
                    continue             # the case syntax carries magnitudes below 2^128 (string forms carry the rest)
                for f in (0, 1):
                    out.append([kind, 0, Zv(z), f])
            if n < T64 * 4:
                out.append([kind, 4, [Zv(n), "+%d" % n], 0])
                out.append([kind, 4, [Zv(n), "0x%x" % n], 0])
                out.append([kind, 4, [Zv(n), "0o%o" % n], 0])
        for z in (-T63, -T63 - 1, -T63 + 1, -T64, -(10 ** 30), 10 ** 30, (1 << 127), (1 << 128) - 1):
            for f in (0, 1):
                out.append([kind, 0, Zv(z), f])
        for t in FLOATS_BOTH:
            out += [[kind, 1, t, 0], [kind, 1, t, 1]]
        out += [[kind, 1, t, 0] for t in FLOATS_YAML] + [[kind, 1, t, 1] for t in FLOATS_JSON]
    # 4. junk: unknown units / suffixes / prefixes, the other family's units
    for kind in (0, 1):
        good = [u for u, _ in SIZE_UNITS] if kind == 0 else INT_UNITS
        other = INT_UNITS if kind == 0 else [u for u, _ in SIZE_UNITS]
        for j in JUNK_UNITS + other:
            for n in ("5", "0", "1024"):
                out += str_cases(kind, n + j, fmts=(rng.below(2),))
            out += str_cases(kind, "5 " + j + " ", fmts=(rng.below(2),))
        for p in JUNK_PREFIX:
            for u in ("", good[0], good[-1]):
                out += str_cases(kind, p + "5" + u, fmts=(rng.below(2),), plain=False)
        for u in good:
            for j in ("s", "x", ".", "1", " b", "́", "e"):
                out += str_cases(kind, "5" + u + j, fmts=(rng.below(2),))
            out += str_cases(kind, "5" + u[:-1], fmts=(rng.below(2),))          # last letter missing
            out += str_cases(kind, "5" + u[1:], fmts=(rng.below(2),))           # first letter missing
            out += str_cases(kind, "5." + "5" + u, fmts=(rng.below(2),))        # fraction
            out += str_cases(kind, "5" + u + "5" + u, fmts=(rng.below(2),))
            out += str_cases(kind, u, fmts=(rng.below(2),), plain=False)                     # no number
        out += str_cases(kind, "", plain=False)
        # references to variables that ARE set in the harness process (C20_UNIT=kb, C20_NUM=10, C20_EMPTY=,
        # C20_SECS=seconds): a literal is a literal, not a path - nothing is expanded inside it
        for lit_ in ("10 $ENV{C20_UNIT}", "10$ENV{C20_UNIT}", "$ENV{C20_NUM} kb", "$ENV{C20_NUM}", "10 kb$ENV{C20_EMPTY}",
                     "10$ENV{C20_EMPTY}", "$ENV{C20_EMPTY}10 kb", "5 $ENV{C20_SECS}", "5 second$ENV{C20_EMPTY}s",
                     "$ENV{C20_NUM} $ENV{C20_SECS}", "1$ENV{C20_NUM}", "10 ${C20_UNIT}", "10 $C20_UNIT", "10 %C20_UNIT%"):
            out += str_cases(kind, lit_, fmts=(0, 1))
        # small numbers zero-padded far beyond the 20 digits of u64::MAX / 19 of i64::MAX: still the same number
        for nd in (19, 20, 21, 22, 25, 40, 77):
            for v in ("1", "7", "1024"):
                pad = "0" * (nd - len(v)) + v
                out += str_cases(kind, pad + " " + good[1 if kind == 0 else 0], fmts=(rng.below(2),))
                out += str_cases(kind, pad + good[0], fmts=(rng.below(2),))
                out += str_cases(kind, pad, fmts=(rng.below(2),), plain=False)
    # 5. random compositions
    n_rand = 3000 if not thorough else 60000
    alphabet = "bkmgtiBKMGTIsecondhurayw SECONDHURAYW\t.-+0123456789 Kſx"
    for _ in range(n_rand):
        kind = rng.below(2)
        good = [u for u, _ in SIZE_UNITS] if kind == 0 else INT_UNITS
        r = rng.below(10)
        if r < 3:
            nd = rng.range(1, 21)
            num = "".join(str(rng.below(10)) for _ in range(nd))
        elif r < 6:
            mult = rng.choice(SIZE_UNITS)[1]
            base = rng.choice([T64 // mult, T63 // mult, T63, T64])
            num = str(max(0, base + rng.range(-2, 2)))
        else:
            num = str(rng.choice([0, 1, 2, 10, 100, 1023, 1024, 1025, 65536, 10 ** 9, 2 ** 40, 2 ** 53]))
        if rng.chance(1, 8):
            num = "0" * rng.range(1, 5) + num
        r = rng.below(10)
        if r < 6:
            unit = rng.choice(casings(rng.choice(good)))
        elif r < 8:
            unit = "".join(rng.choice(alphabet) for _ in range(rng.range(0, 4)))
        else:
            u = rng.choice(casings(rng.choice(good)))
            i = rng.below(len(u) + 1)
            unit = u[:i] + rng.choice(alphabet) + u[i + rng.below(2):]
        text = num + rng.choice(WS_MID) + unit + rng.choice(WS_END)
        out += str_cases(kind, text, fmts=(rng.below(2),))
    return out


def _toml_twins(cs, every, rng=None):
    """the same literal through the TOML front-end (integers arrive at the visitors as i64 there, not u64):
    integer scalars inside i64 and quoted strings of size / interval cases"""
    out, k = [], 0
    for c in cs:
        kind, form, p, fmt = c
        if kind == 2 or fmt == 2:
            continue
        if form == 0:
            z = -p[1] if p[0] else p[1]
            if not (-T63 <= z < T63):
                continue
            k += 1
            if every > 2 and k % 2 == 0:      # integer scalars are few: every second one
                out.append([kind, form, p, 2])
        elif form == 2:
            k += 1
            if k % every == 0:
                out.append([kind, form, p, 2])
    return out


def corpus():
    out = _corpus0()
    return out + _toml_twins(out, 2)


def cases(rng, tier):
    out = _cases0(rng, tier)
    return out + _toml_twins(out, 7 if tier == "quick" else 3)


def nontrivial(c):
    kind, form, p, fmt = c
    if form in (0, 1, 4):
        return True
    return bool(p) and 48 <= p[0] <= 57


def classify(c):
    kind, form, p, fmt = c
    return "%s/%s/%s" % (("size", "interval", "refresh_rate")[kind], ("int", "float", "quoted", "plain", "altint")[form],
                         ("yaml", "json", "toml")[fmt])


def describe(c):
    kind, form, p, fmt = c
    if form == 0:
        v = -p[1] if p[0] else p[1]
    elif form == 1:
        v = p if isinstance(p, str) else bytes(p).decode()
    elif form == 4:
        v = p[1] if isinstance(p[1], str) else bytes(p[1]).decode()
    else:
        v = "".join(chr(x) for x in p)
    return {"field": ("limit", "interval", "refresh_rate")[kind], "scalar_form": ("integer", "float", "quoted string", "plain string",
                                                                  "integer (alternative spelling)")[form],
            "scalar": v, "front_end": ("serde_yaml", "serde_json", "toml")[fmt]}
