"""C20 — size and interval literals: exact value, rejection of bad / overflowing ones.
case: ( kind form payload fmt )
  kind 0 SizeTriggerConfig.limit | 1 TimeTriggerConfig.interval
  form 0 integer scalar (payload Z) | 1 float scalar (payload literal text) |
       2 quoted string (payload code points) | 3 YAML plain scalar (payload code points) |
       4 integer scalar in an alternative YAML spelling (payload ( Z text ))
  fmt 0 serde_yaml | 1 serde_json
result: (0) rejected | (1 limit) | (1 unit n)"""
import itertools
from vcommon import Zv

RULE = ("exhaustive part: every letter case of every unit spelling (9 size spellings = 50 casings, 14 interval "
        "spellings = 648 casings) x numbers {0, 1, 1023, 1024, every overflow threshold floor(2^64/mult)-1/0/+1, "
        "floor(2^63/mult)-1/0/+1, 2^63-1/0/+1, 2^64-1/0/+1, 10^19, 20 nines, 25 digits, leading zeros}; every "
        "white-space placement (none, space, tab, several, NBSP, U+2003/U+3000, LF, U+0085, trailing variants) x every "
        "unit; integer scalars at every threshold +-1 and their negatives, out-of-range integers, alternative YAML "
        "integer spellings (+n, 0x, 0o), float literals, junk suffixes / prefixes (unknown units, fractions, signs, "
        "leading white space, non-ASCII look-alikes such as KELVIN SIGN and LONG S, non-ASCII digits); each through "
        "serde_yaml and serde_json, string scalars quoted and (where the text is a safe plain scalar) unquoted; then "
        "random compositions number+ws+unit-ish+ws. The casing x number product is taken in full (quick: one front-end per "
        "literal chosen at random, thorough: both). non-trivial = integer/float scalar, or a string with a non-empty digit prefix (the parser gets "
        "past its first rejection); distinct = distinct case line")
ASSUMPTIONS = ["serde_yaml 0.9 / serde_json 1.0 hand a scalar to the visitor as modelled: integers in [0,2^64) to "
               "visit_u64, in [-2^63,0) to visit_i64, other numbers (floats, wider integers) to a visitor method the "
               "config types do not implement (rejected), strings to visit_str unchanged",
               "the other TimeTriggerConfig fields keep their defaults (the harness asserts it)"]
EXHAUSTIVE = {"quick": False, "thorough": False}
TRUSTED = ["serde / serde_yaml / serde_json scalar resolution (modelled by the scalar form handed to the visitor, exercised "
           "on every case)", "Debug rendering of SizeTriggerConfig (read-back of the private limit)",
           "TimeTriggerConfig::verif_parts hook"]

T64, T63 = 1 << 64, 1 << 63
SIZE_UNITS = [("b", 1), ("kb", 1 << 10), ("kib", 1 << 10), ("mb", 1 << 20), ("mib", 1 << 20),
              ("gb", 1 << 30), ("gib", 1 << 30), ("tb", 1 << 40), ("tib", 1 << 40)]
INT_WORDS = ["second", "minute", "hour", "day", "week", "month", "year"]
INT_UNITS = [w + s for w in INT_WORDS for s in ("", "s")]
WS_MID = ["", " ", "\t", "  ", " \t  ", " ", " 　", "\n", "\u0085", "  ", "\r\n", "\x0b\x0c"]
WS_END = ["", " ", "\t", "  \t", " ", "\n"]
JUNK_UNITS = ["k", "kbx", "bb", "kb1", "k b", "ki b", "kibb", "pb", "eb", "kbit", "bytes", "byte", "kilobytes",
              "Kb", "Kib", "kıb", "ｋｂ", "μb", "kb.", "kb,", "kb/s", ".kb", "kb kb",
              "sec", "s", "min", "h", "d", "w", "m", "y", "ms", "secondss", "second s", "dayſ", "hrs", "fortnight",
              "weeks.", "month(s)", "years ago", "mon th", "нay", "dаy", "-", "+", "_", "%", "e3", "E3kb",
              ".5kb", ".5", ".0", ".", ",5kb", "_000", "_000kb", " 000", " 5", " 5 kb", "x10", "\x00kb", "kb\x00",
              "​kb", "kb​", "﻿kb", "᠎kb", "\U0001F600", "ḱb", "'kb'", "\"kb\"", "\\kb"]
JUNK_PREFIX = ["-", "+", " ", "\t", " ", "0x", "٣", "５", "٥", ".", "~", "−", "--", "- ", "\n"]
FLOATS_BOTH = ["1.5", "1e3", "10.0", "-0.0", "1E2", "0.0", "1.0e0", "1024.0", "5e-1", "-1.5", "1e19", "1e400",
               "18446744073709551615.0", "2.5E+2"]
FLOATS_YAML = [".5", "1.", ".inf", "-.inf", ".nan", "+1.5", "+.inf", ".NaN", ".Inf", "1_000.5"]
FLOATS_JSON = ["-0", "1E+2", "1e-0", "0e0", "123456789012345678901234567890"]


def cps(s):
    return [ord(c) for c in s]


def casings(word):
    return ["".join(t) for t in itertools.product(*[(c.lower(), c.upper()) if c.isalpha() else (c,) for c in word])]


def size_numbers(mult):
    ns = [0, 1, 7, 1023, 1024, T64 // mult - 1, T64 // mult, T64 // mult + 1, T63 // mult - 1, T63 // mult,
          T63 // mult + 1, T63 - 1, T63, T63 + 1, T64 - 1, T64, T64 + 1, 10 ** 19, 10 ** 20 - 1, 10 ** 24 + 5]
    return sorted(set(ns))


INT_NUMBERS = sorted(set([0, 1, 7, 60, T63 - 2, T63 - 1, T63, T63 + 1, (1 << 31) - 1, 1 << 31, (1 << 32), T64 - 1, T64,
                          T64 + 1, 10 ** 18, 10 ** 19, 10 ** 20 - 1, 10 ** 24 + 5]))


def plain_safe(s):
    """text that YAML reads back unchanged as a plain scalar and resolves to a string"""
    if not s or not s[0].isdigit() or s[-1] == " ":
        return False
    if not all(c.isascii() and (c.isalnum() or c == " ") for c in s):
        return False
    if "  " in s or s.isdigit():
        return False
    low = s.lower()
    # digits followed by e<digits> would be a float, 0x../0o../0b.. an integer
    rest = low.lstrip("0123456789")
    if rest[:1] == "e" and rest[1:].isdigit():
        return False
    if low[:2] in ("0x", "0o", "0b"):
        return False
    return True


def str_cases(kind, text, fmts=(0, 1), plain=True):
    out = [[kind, 2, cps(text), f] for f in fmts]
    if plain and plain_safe(text):
        out.append([kind, 3, cps(text), 0])
    return out


def corpus():
    out = []
    for k in (0, 1):
        for f in (0, 1):
            for t in ("10 KiB ", "17179869184gb", "1.5kb", "-1", "1Kb", "1 ", "3 Weeks", "9223372036854775808",
                      "18014398509481984kb", "18014398509481983kb", " 5", "5"):
                out.append([k, 2, cps(t), f])
            for z in (T64 - 1, T64, T63, T63 - 1, -1, 0):
                out.append([k, 0, Zv(z), f])
    return out


def cases(rng, tier):
    out = []
    thorough = tier == "thorough"
    # 1. every casing of every unit x numbers
    for kind, units in ((0, SIZE_UNITS), (1, [(u, None) for u in INT_UNITS])):
        for (u, mult) in units:
            nums = size_numbers(mult) if kind == 0 else INT_NUMBERS
            for cs in casings(u):
                for n in nums:
                    w = rng.choice(WS_MID[:5]) if not rng.chance(1, 2) else ""
                    out += str_cases(kind, "%d%s%s" % (n, w, cs), fmts=((0, 1) if thorough else (rng.below(2),)))
            # every number with the canonical lower-case spelling, both front-ends
            for n in nums:
                out += str_cases(kind, "%d%s" % (n, u)) + str_cases(kind, "%d %s" % (n, u.upper()), fmts=(rng.below(2),))
    # 2. every white-space placement x every unit
    for kind, units in ((0, [u for u, _ in SIZE_UNITS]), (1, INT_UNITS)):
        for u in units:
            for wm in WS_MID:
                for we in WS_END:
                    cs = rng.choice(casings(u))
                    n = rng.choice([0, 1, 5, 1024, 4096, 10 ** rng.below(12)])
                    out += str_cases(kind, "%d%s%s%s" % (n, wm, cs, we), fmts=(rng.below(2),))
        # white space only after the number, before it, inside the unit
        for wm in WS_MID[1:]:
            out += str_cases(kind, "5" + wm, plain=False)
            out += str_cases(kind, wm + "5", plain=False)
            out += str_cases(kind, wm + "5" + units[1], plain=False)
            out += str_cases(kind, "5" + units[1][:1] + wm + units[1][1:], plain=False)
    # 3. bare numbers as strings (leading zeros too) and integer scalars
    for kind in (0, 1):
        allnums = sorted(set(INT_NUMBERS + [n for _, m in SIZE_UNITS for n in size_numbers(m)]))
        for n in allnums:
            out += str_cases(kind, str(n))
            out += str_cases(kind, "000" + str(n), fmts=(rng.below(2),))
            for z in (n, -n, n + 1, -(n + 1)):
                for f in (0, 1):
                    out.append([kind, 0, Zv(z), f])
            if n < T64 * 4:
                out.append([kind, 4, [Zv(n), "+%d" % n], 0])
                out.append([kind, 4, [Zv(n), "0x%x" % n], 0])
                out.append([kind, 4, [Zv(n), "0o%o" % n], 0])
        for z in (-T63, -T63 - 1, -T63 + 1, -T64, -(10 ** 30), 10 ** 30, (1 << 127), (1 << 128) - 1):
            for f in (0, 1):
                out.append([kind, 0, Zv(z), f])
        for t in FLOATS_BOTH:
            out += [[kind, 1, t, 0], [kind, 1, t, 1]]
        out += [[kind, 1, t, 0] for t in FLOATS_YAML] + [[kind, 1, t, 1] for t in FLOATS_JSON]
    # 4. junk: unknown units / suffixes / prefixes, the other family's units
    for kind in (0, 1):
        good = [u for u, _ in SIZE_UNITS] if kind == 0 else INT_UNITS
        other = INT_UNITS if kind == 0 else [u for u, _ in SIZE_UNITS]
        for j in JUNK_UNITS + other:
            for n in ("5", "0", "1024"):
                out += str_cases(kind, n + j, fmts=(rng.below(2),))
            out += str_cases(kind, "5 " + j + " ", fmts=(rng.below(2),))
        for p in JUNK_PREFIX:
            for u in ("", good[0], good[-1]):
                out += str_cases(kind, p + "5" + u, fmts=(rng.below(2),), plain=False)
        for u in good:
            for j in ("s", "x", ".", "1", " b", "́", "e"):
                out += str_cases(kind, "5" + u + j, fmts=(rng.below(2),))
            out += str_cases(kind, "5" + u[:-1], fmts=(rng.below(2),))          # last letter missing
            out += str_cases(kind, "5" + u[1:], fmts=(rng.below(2),))           # first letter missing
            out += str_cases(kind, "5." + "5" + u, fmts=(rng.below(2),))        # fraction
            out += str_cases(kind, "5" + u + "5" + u, fmts=(rng.below(2),))
            out += str_cases(kind, u, fmts=(rng.below(2),), plain=False)                     # no number
        out += str_cases(kind, "", plain=False)
    # 5. random compositions
    n_rand = 3000 if not thorough else 60000
    alphabet = "bkmgtiBKMGTIsecondhurayw SECONDHURAYW\t.-+0123456789 Kſx"
    for _ in range(n_rand):
        kind = rng.below(2)
        good = [u for u, _ in SIZE_UNITS] if kind == 0 else INT_UNITS
        r = rng.below(10)
        if r < 3:
            nd = rng.range(1, 21)
            num = "".join(str(rng.below(10)) for _ in range(nd))
        elif r < 6:
            mult = rng.choice(SIZE_UNITS)[1]
            base = rng.choice([T64 // mult, T63 // mult, T63, T64])
            num = str(max(0, base + rng.range(-2, 2)))
        else:
            num = str(rng.choice([0, 1, 2, 10, 100, 1023, 1024, 1025, 65536, 10 ** 9, 2 ** 40, 2 ** 53]))
        if rng.chance(1, 8):
            num = "0" * rng.range(1, 5) + num
        r = rng.below(10)
        if r < 6:
            unit = rng.choice(casings(rng.choice(good)))
        elif r < 8:
            unit = "".join(rng.choice(alphabet) for _ in range(rng.range(0, 4)))
        else:
            u = rng.choice(casings(rng.choice(good)))
            i = rng.below(len(u) + 1)
            unit = u[:i] + rng.choice(alphabet) + u[i + rng.below(2):]
        text = num + rng.choice(WS_MID) + unit + rng.choice(WS_END)
        out += str_cases(kind, text, fmts=(rng.below(2),))
    return out


def nontrivial(c):
    kind, form, p, fmt = c
    if form in (0, 1, 4):
        return True
    return bool(p) and 48 <= p[0] <= 57


def classify(c):
    kind, form, p, fmt = c
    return "%s/%s/%s" % (("size", "interval")[kind], ("int", "float", "quoted", "plain", "altint")[form],
                         ("yaml", "json")[fmt])


def describe(c):
    kind, form, p, fmt = c
    if form == 0:
        v = -p[1] if p[0] else p[1]
    elif form == 1:
        v = p if isinstance(p, str) else bytes(p).decode()
    elif form == 4:
        v = p[1] if isinstance(p[1], str) else bytes(p[1]).decode()
    else:
        v = "".join(chr(x) for x in p)
    return {"field": ("limit", "interval")[kind], "scalar_form": ("integer", "float", "quoted string", "plain string",
                                                                  "integer (alternative spelling)")[form],
            "scalar": v, "front_end": ("serde_yaml", "serde_json")[fmt]}
