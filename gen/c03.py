"""C03 — filter chains per appender, fan-out isolation, error handler calls.
case: ( node_level L ( (fails (filter ...)) ... ) ( attached ... ) )"""
import itertools

RULE = ("exhaustive: every scripted chain over {Accept,Neutral,Reject} of length <= 4 on one appender x "
        "fails/succeeds x 5 record levels x 3 node levels; every threshold level x record level inside a "
        "chain; then random fan-outs of 1-4 appenders (chains <= 5 incl. threshold filters, random "
        "failing flags, attachment lists with repeats). non-trivial = at least one filter is consulted "
        "and the node admits the record; distinct = distinct case line")
ASSUMPTIONS = ["scripted filters answer the same for every call on the same record",
               "the logger under test has the root as only node (routing is C01's subject)"]
EXHAUSTIVE = {"quick": False, "thorough": False}


def cases(rng, tier):
    out = []
    for n in range(0, 5):
        for ch in itertools.product((0, 1, 2), repeat=n):
            fs = [[0, r] for r in ch]
            for fails in (0, 1):
                for L in range(1, 6):
                    for nl in (0, 3, 5):
                        out.append([nl, L, [[fails, fs]], [0]])
    for t in range(0, 6):
        for L in range(1, 6):
            for pre in ([], [[0, 1]], [[0, 0]], [[0, 2]]):
                for post in ([], [[0, 2]], [[0, 0]]):
                    out.append([5, L, [[1, pre + [[1, t]] + post]], [0]])
    n_rand = 2000 if tier == "quick" else 40000
    for _ in range(n_rand):
        na = rng.range(1, 4)
        apps = []
        for _a in range(na):
            fs = []
            for _k in range(rng.below(6)):
                if rng.chance(1, 4):
                    fs.append([1, rng.below(6)])
                else:
                    fs.append([0, rng.choice([0, 1, 1, 1, 2])])
            apps.append([rng.below(2), fs])
        att = [rng.below(na) for _ in range(rng.below(6))]
        out.append([rng.choice([0, 1, 2, 3, 4, 5, 5, 5]), rng.range(1, 5 + 0), apps, att])
    return out


def nontrivial(c):
    nl, L, apps, att = c
    return L <= nl and any(len(apps[i][1]) > 0 for i in att)


def classify(c):
    nl, L, apps, att = c
    return "apps=%d attached=%d" % (len(apps), len(att))


def describe(c):
    nl, L, apps, att = c
    names = {0: "Accept", 1: "Neutral", 2: "Reject"}
    return {"node_level": nl, "record_level": L, "attached": att,
            "appenders": [{"fails": bool(f), "filters": [names[x[1]] if x[0] == 0 else "Threshold(%d)" % x[1] for x in fs]}
                          for f, fs in apps]}
