"""C03 — filter chains per appender, fan-out isolation, error handler calls.
case: ( node_level L ( (fails (filter ...)) ... ) ( attached ... ) )
   or ( 1 apps nodes calls mode )   re-entrant / unwinding / two-thread history:
      nodes = ( (level (attached ...)) ... ), call = ( id by_handler by_app node L (panic-app ...) (kid ...) )"""
import itertools

RULE = ("exhaustive: every scripted chain over {Accept,Neutral,Reject} of length <= 4 on one appender x "
        "fails/succeeds x 5 record levels x 3 node levels; every threshold level x record level inside a "
        "chain, also with the crate's ThresholdFilter attached directly (not behind the recording wrapper) at every "
        "position among scripted filters; every 7th (thorough: 2nd) plain case also DECLARED IN A CONFIGURATION FILE "
        "(YAML -> RawConfig::appenders_lossy; recording kinds registered through Deserializers::insert, half of "
        "them with the kind `threshold` registered again by the harness: the last registration is the one "
        "used); and for a third of the chains on an appender supplied as a log::Log value "
        "whose own enabled() refuses everything (blanket Append impl); then random fan-outs of 1-4 appenders (chains <= 5 incl. threshold filters, random "
        "failing flags, attachment lists with repeats); then HISTORIES: random call trees (depth <= 3, <= 2 "
        "nested calls per call, 1-3 top-level calls) over 1-3 appenders and 1-3 nodes in which an appender "
        "logs further records through the same Logger from inside append() (to other appenders and to "
        "itself), the error handler logs records that fail again, scripted appenders panic inside append() "
        "(caught by the caller, followed by ordinary calls on the same thread), and in mode 1 a second "
        "thread logs while the first thread is blocked inside the error handler; plus a fixed list of such "
        "scenarios. non-trivial = at least one filter is consulted and the node admits the record (plain "
        "cases) / the history has a nested call, a panic or two threads; distinct = distinct case line")
ASSUMPTIONS = ["scripted filters answer the same for every call on the same record",
               "the logger under test has the root as only node (routing is C01's subject); histories use "
               "the root and non-additive child loggers addressed by exact target",
               "in histories the scripted Append/handler behaviour (nested calls, panic) depends on the record "
               "only and call ids are unique; user code holds no lock while it logs (no self-deadlock)",
               "mode-1 global order is fixed by the harness's rendezvous (handler event, then all of thread 2, "
               "then the rest of thread 1); other interleavings are covered by the theorem, not by the test"]
RELEASE_TOO = True          # the cases also run through the release-profile harness (see ./check)
EXHAUSTIVE = {"quick": False, "thorough": False}


def cases(rng, tier):
    out = []
    for n in range(0, 5):
        for ch in itertools.product((0, 1, 2), repeat=n):
            fs = [[0, r] for r in ch]
            for fails in (0, 1, 2):
                for L in range(1, 6):
                    for nl in (0, 3, 5):
                        if fails == 2 and (L + nl + n) % 3:
                            continue
                        out.append([nl, L, [[fails, fs]], [0]])
    for t in range(0, 6):
        for L in range(1, 6):
            for pre in ([], [[0, 1]], [[0, 0]], [[0, 2]]):
                for post in ([], [[0, 2]], [[0, 0]]):
                    out.append([5, L, [[1, pre + [[1, t]] + post]], [0]])
    # the crate's own ThresholdFilter attached DIRECTLY (kind 2: not behind the recording wrapper) among
    # scripted filters: every position in chains of length <= 3, every threshold x record level
    for t in range(0, 6):
        for L in range(1, 6):
            for pre in ([], [[0, 1]], [[0, 0]], [[0, 2]], [[0, 1], [0, 0]], [[2, 5]], [[2, 0]]):
                for post in ([], [[0, 2]], [[0, 0]], [[0, 1]], [[2, 3]]):
                    out.append([5, L, [[rng.below(2), pre + [[2, t]] + post]], [0]])
    # a WIDE configuration: more appenders than a 16-bit index can address; the attached ones (with chains and a
    # failing one) are declared last, the first ones (whose chains would answer otherwise) are not attached
    for n_apps in ([65540] if tier == "quick" else [65540, 131080]):
        for L in (1, 4):
            apps = [[0, [[0, 2]]], [1, [[0, 0]]], [0, [[0, 1], [0, 2]]]] + [[0, []] for _ in range(n_apps - 3)]
            apps[65536] = [0, [[0, 1], [1, 3]]]
            apps[65537] = [1, [[0, 0]]]
            apps[65538] = [0, [[0, 2]]]
            apps[n_apps - 1] = [1, []]
            out.append([5, L, apps, [65536, 65537, 65538, n_apps - 1, 65537]])
    n_rand = 2000 if tier == "quick" else 40000
    for _ in range(n_rand):
        na = rng.range(1, 4)
        apps = []
        for _a in range(na):
            fs = []
            for _k in range(rng.below(6)):
                if rng.chance(1, 4):
                    fs.append([rng.choice([1, 1, 2]), rng.below(6)])
                else:
                    fs.append([0, rng.choice([0, 1, 1, 1, 2])])
            apps.append([rng.choice([0, 0, 1, 1, 2]), fs])      # 2: supplied as a log::Log whose enabled() says no
        att = [rng.below(na) for _ in range(rng.below(6))]
        out.append([rng.choice([0, 1, 2, 3, 4, 5, 5, 5]), rng.range(1, 5 + 0), apps, att])
    # the same plain cases DECLARED IN A CONFIGURATION FILE (YAML text -> RawConfig::appenders_lossy with the
    # scripted filter / recording appender kinds registered by the harness); with override = 1 the harness
    # registers its own recording `threshold` kind over the built-in one (the kind registered last is used)
    plain = [c for c in out if len(c) == 4]
    step = 7 if tier == "quick" else 2
    for j, c in enumerate(plain[::step]):
        over = j % 2
        apps = [[f, [[1, x[1]] if x[0] == 2 else x for x in fs]] for f, fs in c[2]]
        out.append([c[0], c[1], apps, c[3], over, 0])
    out.extend(_fixed_histories())
    n_hist = 2500 if tier == "quick" else 40000
    for _ in range(n_hist):
        out.append(_history(rng))
    return out


def _fixed_histories():
    """the scenarios named in the property discussion, spelled out"""
    N, ok, bad = [0, 1], [0, []], [1, []]
    neutral_ok, neutral_bad = [0, [N]], [1, [N]]
    out = []
    for fa in (0, 1):
        for fb in (0, 1):
            apps = [[fa, [N]], [fb, [N, [1, 3]]]]
            # (a) A logs, from inside append(), a record routed to B only / to A itself / to both
            for nodes, knode in (([[5, [0]], [5, [1]]], 1), ([[5, [0]], [5, [0]]], 1), ([[5, [0, 1]]], 0),
                                 ([[5, [1, 0]]], 0), ([[5, [0]], [5, [0, 1, 0]]], 1)):
                for kl in (1, 3, 5):
                    out.append([1, apps, nodes, [[1, 0, 0, 0, 2, [], [[2, 0, 0, knode, kl, [], []]]]], 0])
            # (b) the handler logs a record whose delivery fails again (depth 1 and 2)
            nodes = [[5, [0, 1]], [5, [1, 0]]]
            out.append([1, apps, nodes, [[1, 0, 0, 0, 2, [], [[2, 1, 0, 1, 1, [], []], [3, 1, 1, 0, 1, [], []]]]], 0])
            out.append([1, apps, nodes, [[1, 0, 0, 0, 2, [], [[2, 1, 0, 1, 1, [], [[3, 1, 1, 0, 2, [], []],
                                                                                     [4, 1, 0, 0, 3, [], []]]]]]], 0])
            # (c) thread 2 logs a failing record while thread 1 is inside the handler
            for rest in ([[2, 0, 0, 0, 1, [], []]], [[2, 0, 0, 1, 2, [], []], [3, 0, 0, 0, 3, [], []]]):
                out.append([1, apps, nodes, [[1, 0, 0, 0, 2, [], [[9, 1, 0, 1, 1, [], []]]]] + rest, 1])
            # (d) an appender panics once inside append (caught), later records are ordinary
            for pan in ([0], [1], [0, 1]):
                out.append([1, apps, nodes, [[1, 0, 0, 0, 2, pan, []], [2, 0, 0, 0, 2, [], []],
                                             [3, 0, 0, 1, 1, [], [[4, 0, 1, 0, 1, [], []]]]], 0])
                out.append([1, apps, nodes, [[1, 0, 0, 0, 2, [], [[5, 0, 0, 1, 2, pan, []]]], [2, 0, 0, 0, 2, [], []]], 0])
                out.append([1, apps, nodes, [[1, 0, 0, 0, 2, pan, []], [2, 0, 0, 0, 2, [], []]], 1])
    return out


def _history(rng):
    na = rng.range(1, 3)
    apps = []
    for _a in range(na):
        fs = []
        for _k in range(rng.below(4)):
            if rng.chance(1, 3):
                fs.append([1, rng.range(2, 5)])
            else:
                fs.append([0, rng.choice([0, 1, 1, 1, 1, 2])])
        apps.append([rng.below(2), fs])
    nn = rng.range(1, 3)
    nodes = [[rng.choice([2, 3, 4, 5, 5, 5]), [rng.below(na) for _ in range(rng.range(1, 3))]] for _ in range(nn)]
    ctr = [0]

    def tree(depth, parent_att):
        ctr[0] += 1
        cid = ctr[0]
        node = rng.below(nn)
        L = rng.range(1, 5)
        att = nodes[node][1]
        if parent_att and rng.chance(5, 6):
            ba = rng.choice(parent_att)
        else:
            ba = rng.below(na)
        bh = 1 if (apps[ba][0] and rng.chance(1, 2)) else (1 if rng.chance(1, 8) else 0)
        panics = [rng.choice(att)] if rng.chance(1, 10) else []
        kids = []
        if depth > 0:
            for _ in range(rng.choice([0, 1, 1, 2])):
                kids.append(tree(depth - 1, att))
        return [cid, bh, ba, node, L, panics, kids]

    calls = [tree(rng.range(0, 3), None) for _ in range(rng.range(1, 3))]
    mode = 1 if (len(calls) > 1 and rng.chance(1, 3)) else 0
    return [1, apps, nodes, calls, mode]


def _is_file(c):
    return len(c) == 6


def _raw(c):
    """positions (app, k) of threshold filters whose consultations are not recorded: attached directly (kind 2),
    or the built-in `threshold` kind of a file-declared case without the harness's override"""
    if _is_hist(c):
        return set()
    if _is_file(c) and not c[4]:
        return {(i, k) for i, (f, fs) in enumerate(c[2]) for k, x in enumerate(fs) if x[0] in (1, 2)}
    return {(i, k) for i, (f, fs) in enumerate(c[2]) for k, x in enumerate(fs) if x[0] == 2}


def model_lines(ctx, cases, lines, impl_lines):
    """the model knows one kind of threshold filter; whether the harness wraps it is not its business"""
    vc = ctx["vc"]
    out = []
    for c, ln in zip(cases, lines):
        if not _is_hist(c) and (_is_file(c) or _raw(c) or any(f == 2 for f, fs in c[2])):
            # (a log::Log-backed appender is, for the model, an appender that succeeds)
            c = [c[0], c[1], [[0 if f == 2 else f, [[1, x[1]] if x[0] == 2 else x for x in fs]] for f, fs in c[2]], c[3]]
            ln = vc.show(c)        # (4 components: a file-declared case is, for the model, the plain case)
        out.append(ln)
    return out


def compare(c, impl, model):
    raw = _raw(c)
    if raw and isinstance(model, list):
        # consultations of directly attached filters are not observable: drop them from the model's log
        model = [e for e in model if not (isinstance(e, list) and len(e) == 3 and e[0] == 0 and (e[1], e[2]) in raw)]
    return None if impl == model else "impl != model: events %r, model %r" % (str(impl)[:300], str(model)[:300])


def _is_hist(c):
    return len(c) == 5


def _ncalls(call):
    return 1 + sum(_ncalls(k) for k in call[6])


def _has_panic(call):
    return bool(call[5]) or any(_has_panic(k) for k in call[6])


def nontrivial(c):
    if _is_hist(c):
        return c[4] == 1 or any(k[6] or _has_panic(k) for k in c[3])
    nl, L, apps, att = c[:4]
    return L <= nl and any(len(apps[i][1]) > 0 for i in att)


def classify(c):
    if _is_hist(c):
        n = sum(_ncalls(k) for k in c[3])
        return "history mode=%d calls=%s panic=%s" % (c[4], n if n < 4 else "4+", any(_has_panic(k) for k in c[3]))
    nl, L, apps, att = c[:4]
    return "apps=%d attached=%d" % (len(apps), len(att))


def _dcall(k):
    return {"id": k[0], "issued_by": ("handler of appender %d's error" if k[1] else "appender %d inside append()") % k[2],
            "node": k[3], "level": k[4], "appenders_that_panic": k[5], "nested": [_dcall(x) for x in k[6]]}


def describe(c):
    names = {0: "Accept", 1: "Neutral", 2: "Reject"}
    if _is_hist(c):
        return {"mode": "two threads (first call on thread 1, blocked in its first handler call while thread 2 runs the rest)"
                if c[4] else "one thread, each top-level call under catch_unwind",
                "appenders": [{"kind": {0: "succeeds", 1: "fails", 2: "log::Log value, enabled()=false"}.get(f, f), "filters": [names[x[1]] if x[0] == 0 else "Threshold(%d)" % x[1] for x in fs]}
                              for f, fs in c[1]],
                "nodes": [{"level": n[0], "attached": n[1]} for n in c[2]],
                "top_level_calls (issued_by ignored)": [_dcall(k) for k in c[3]]}
    nl, L, apps, att = c[:4]
    return {"node_level": nl, "record_level": L, "attached": att,
            "appenders": [{"kind": {0: "succeeds", 1: "fails", 2: "log::Log value, enabled()=false"}.get(f, f), "filters": [names[x[1]] if x[0] == 0 else "Threshold(%d)" % x[1] for x in fs]}
                          for f, fs in apps]}


def extra_checks(ctx, cases, impl_lines, model_lines):
    """the DEFAULT error handler (Logger::new) in a child process whose stderr cannot be written (/dev/full; a
    pipe whose reader is gone): two failing appenders among four, three records - no panic reaches the caller
    and every appender still gets every record (direct oracle)"""
    import os
    import subprocess
    vc = ctx["vc"]
    res = []
    for what in ("/dev/full", "closed-pipe"):
        if what == "/dev/full":
            if not os.path.exists("/dev/full"):
                continue
            err = open("/dev/full", "wb")
            rfd = None
        else:
            rfd, wfd = os.pipe()
            os.close(rfd)
            err = os.fdopen(wfd, "wb")
        try:
            p = subprocess.run([ctx["vh"], "default-handler"], stdin=subprocess.DEVNULL, stdout=subprocess.PIPE,
                               stderr=err, timeout=60, env=vc.ENV)
            out = p.stdout.decode("utf-8", "replace").strip()
        except subprocess.TimeoutExpired:
            out = "hang"
        finally:
            err.close()
        if out != "0 12":
            res.append(("default error handler with an unwritable stderr (%s): (panics reaching the caller, deliveries) = "
                        "%r, expected '0 12' (3 records x 4 attached appenders, two of them failing)" % (what, out),
                        {"scenario": "c03 default-handler with stderr=" + what}))
            break
    ctx.setdefault("xcheck", {})["default_handler_children"] = 2
    if res:
        return res
    # "each appender error is handed to the error handler exactly once" - to the handler of the configuration the
    # record was routed by, also when another configuration is installed while the record is in flight: C15's swap
    # scenarios with a failing appender and a recording handler
    from gen import xcheck
    return xcheck.borrow(ctx, "C15", "an appender error reaches the error handler once, whatever is reconfigured meanwhile",
                         lambda c: c[0] == 0 and len(c) > 6, n=120, seed_salt=41)
