"""C04 — file appender: acknowledged records are visible, whole, ordered, not interleaved.

kind 0  (0 enc a pre (op ...))   sequential history on one log file; the file is read back after the
                                 build and after EVERY op and compared byte for byte with the model's disk
        enc: 0 scripted multi-chunk encoder / 1 the real PatternEncoder "{m}{n}"
        a: 1 append / 0 truncate     pre: (0) no file (and no directory) | (1 bytes)
        op: (0 (chunk ...)) append one record | (1 a) drop the appender and build a new one (mode a)
            | (2 (chunk ...)) append a record whose scripted encoder writes the chunks, then returns Err
kind 1  (1 a pre yield ((record ...) per thread))   N threads hammer ONE real FileAppender; the final
        file is handed to the model's trace validator (check_trace, proved sound in Coq): it must be the
        open content followed by whole records, every record exactly once, per-thread order kept.
        This is TRACE VALIDATION of the schedules the OS happened to produce, not a proof.
kind 2  (2 cap (resp ...) (op ...))   std::io::BufWriter over a scripted short-writing inner writer
        against Model/BufW.v (result, inner content and buffered bytes after every op)
kind 3  (3 pre (op ...))   several O_APPEND writers on ONE path, file read back after every op:
        op: (0 h (chunk ...)) append through appender h | (1 d) external OpenOptions::append write |
            (2 h) build appender h in append mode while the others stay alive
"""

SIZES = [0, 1, 1023, 1024, 1025, 2048, 5000]

RULE = ("kind 0 (sequential, compared after every call): sweep of every size in {0,1,1023,1024,1025,2048,5000} as a "
        "single-chunk record and every ordered pair of those sizes as a two-chunk record, x {append,truncate} x "
        "pre-existing content {no file, empty, 4 bytes, 1030 bytes} x {scripted encoder, real PatternEncoder {m}{n}}, "
        "followed by a small second record; records whose ENCODER FAILS after writing p in {1,7,1023} bytes (append returns "
        "Err before its flush) followed by records that leave 0, p-1, p, p+1 bytes in the buffer; then random histories of 1-6 ops (appends of 1-4 chunk records with "
        "sizes drawn from that set or split at random points, and drop+rebuild in either mode). "
        "kind 1 (concurrent, trace validation - not proof): 2-8 threads x 50-500 uniquely tagged records of 1-4 "
        "chunks on the real FileAppender, small records, records straddling the 1 KiB buffer, and records of 2-3 "
        "chunks each larger than the buffer, with none/yield_now/sleep between the chunks inside the encoder; "
        "x both modes x pre-existing content. kind 2: random op sequences (write_all/write/flush, data 0..2cap+3) "
        "on BufWriter capacities {0,1,2,3,4,8,16} over scripted short writes / Ok(0) / errors. "
        "kind 3 (shared file): histories of 3-10 ops over 1-3 append-mode appenders alive at the same time on one "
        "path (built at different moments, rebuilt, appends alternating between them) and external O_APPEND writes "
        "in between; the file after every op must be all bytes in call order. "
        "non-trivial = kind 0 with a non-empty record, kind 3 with a write after a second writer appeared, kind 1 with >= 2 threads, kind 2 with >= 1 op; "
        "distinct = distinct case line")
ASSUMPTIONS = [
    "the encoder is deterministic per record and issues one write_all per chunk (scripted encoder; PatternEncoder's own chunking does not matter by C04_append_flushes_whole_record)",
    "regular files on the local file system accept whole writes without error (oracle = []) in kind 0/1; short writes and errors are covered by the theorems and, for BufWriter alone, by kind 2",
    "other writers of the log file (kind 3: further append-mode appenders, external writers) all use O_APPEND; truncate-mode handles (no O_APPEND in the crate) are assumed to be the sole writer",
    "concurrent part: only the schedules produced by the OS during the run are observed (trace validation, not proof); the all-schedules claim rests on the Coq theorem over the model",
]
TRUSTED = [
    "std BufWriter/File/OpenOptions and parking_lot::Mutex are modelled (BufW.v, os_open, the lock of Sched.v), not verified; kind 2 cross-checks BufW.v against std's BufWriter",
    "that FileAppender::append holds ONE guard across encode+flush is established behaviourally (kind 1), the theorem assumes the Acquire..Release block structure",
]
RELEASE_TOO = True          # the cases also run through the release-profile harness (see ./check)
EXHAUSTIVE = {"quick": False, "thorough": False}
IMPL_TIMEOUT = 600


# ------------------------------------------------------------------ content

def body(rng, n, ascii_only):
    """n bytes, position-dependent so that a lost/duplicated/reordered piece shows"""
    if n == 0:
        return b""
    a = rng.below(251)
    b = rng.choice([1, 3, 7, 11, 13])
    if ascii_only:
        return bytes(33 + ((a + j * b + (j >> 8)) % 90) for j in range(n))
    return bytes((a + j * b + (j >> 8)) % 256 for j in range(n))


def split(rng, data, k):
    """k chunks (some possibly empty) whose concatenation is data"""
    cuts = sorted(rng.below(len(data) + 1) for _ in range(k - 1))
    out = []
    prev = 0
    for c in cuts + [len(data)]:
        out.append(data[prev:c])
        prev = c
    return out


def seq_record(rng, ascii_only, budget):
    style = rng.below(3)
    k = rng.range(1, 4)
    if style == 0:
        # every chunk size from the set
        chunks = []
        for _ in range(k):
            s = rng.choice(SIZES)
            if s > budget:
                s = rng.choice([0, 1, 7])
            budget -= s
            chunks.append(body(rng, s, ascii_only))
        return chunks
    if style == 1:
        s = rng.choice(SIZES)
        if s > budget:
            s = rng.choice([0, 1, 30])
        return split(rng, body(rng, s, ascii_only), k)
    s = rng.choice([rng.below(40), rng.range(1000, 1050), rng.below(3000)])
    s = min(s, max(budget, 0))
    return split(rng, body(rng, s, ascii_only), k)


def pres(rng):
    return [[0], [1, b""], [1, b"OLD\n"], [1, body(rng, 1030, True)]]


def seq_cases(rng, tier):
    out = []
    P = pres(rng)
    # sweep: single-chunk sizes and two-chunk pairs
    for enc in (0, 1):
        for a in (1, 0):
            for pre in P:
                for s in SIZES:
                    out.append([0, enc, a, pre, [[0, [body(rng, s, True)]], [0, [b"tail"]]]])
    for a in (1, 0):
        for s1 in SIZES:
            for s2 in SIZES:
                pre = rng.choice(P)
                out.append([0, 0, a, pre, [[0, [body(rng, s1, False), body(rng, s2, False)]], [0, [b"x"]]]])
    # a record whose encoder FAILS after having written p bytes (op 2), then records whose last chunk leaves
    # 0, p-1, p, p+1 bytes in the 1 KiB buffer, an empty record, a record of one byte: whatever the failed call
    # left behind, an acknowledged record is on disk in full when its call returns
    for p in (1, 7, 1023):
        for first in ([body(rng, 1024, False)], [body(rng, 2000, False)], []):
            for tail in (0, max(p - 1, 0), p, p + 1):
                for a in (1, 0):
                    good = first + ([body(rng, tail, False)] if tail else [])
                    out.append([0, 0, a, rng.choice(P), [[2, [body(rng, p, False)]], [0, good], [0, [b"z"]]]])
    n = 300 if tier == "quick" else 2500
    for _ in range(n):
        enc = 1 if rng.chance(1, 4) else 0
        ops = []
        budget = 14000
        for _k in range(rng.range(1, 6)):
            if rng.chance(1, 6):
                ops.append([1, rng.below(2)])
            elif rng.chance(1, 8):
                # the log file is renamed away by somebody else (external rotation), then a new appender is built on
                # the path WHILE THE OLD ONE IS STILL ALIVE (a configuration reload), then the old one is dropped
                ops.append([3, rng.below(2)])
            elif enc == 0 and rng.chance(1, 7):
                r = seq_record(rng, False, min(budget, 1500))
                budget -= sum(len(c) for c in r)
                ops.append([2, r])
            else:
                r = seq_record(rng, enc == 1, budget)
                budget -= sum(len(c) for c in r)
                ops.append([0, r])
        pre = rng.choice(P + [[1, body(rng, rng.below(2100), True)]])
        out.append([0, enc, rng.below(2), pre, ops])
    return out


# ------------------------------------------------------------------ concurrent

def tagged(rng, t, s, total, k):
    head = b"<%d.%d|" % (t, s)
    tail = b"|%d.%d>\n" % (t, s)
    fill = max(0, total - len(head) - len(tail))
    return head + body(rng, fill, True).replace(b"<", b"(").replace(b">", b")") + tail


def conc_case(rng, nthreads, nrecs, shape, yield_mode, a, pre):
    threads = []
    for t in range(nthreads):
        recs = []
        for s in range(nrecs):
            if shape == "small":
                k = rng.range(1, 3)
                data = tagged(rng, t, s, rng.range(12, 60), k)
                recs.append(split(rng, data, k))
            elif shape == "straddle":
                k = rng.range(2, 4)
                data = tagged(rng, t, s, rng.range(900, 1200), k)
                recs.append(split(rng, data, k))
            elif shape == "mixed":
                k = rng.range(1, 4)
                data = tagged(rng, t, s, rng.choice([15, 40, 300, 1023, 1024, 1025, 2048]), k)
                recs.append(split(rng, data, k))
            else:  # "big": every chunk larger than the buffer
                k = rng.range(2, 3)
                data = tagged(rng, t, s, k * rng.range(1100, 1400), k)
                step = len(data) // k
                recs.append([data[i * step:(i + 1) * step if i < k - 1 else len(data)] for i in range(k)])
        threads.append(recs)
    return [1, a, pre, yield_mode, threads]


def conc_cases(rng, tier):
    out = []
    P = [[0], [1, b""], [1, b"OLD CONTENT\n"]]
    plan = [  # (threads, records, shape, yield)
        (2, 500, "small", 0), (8, 500, "small", 1), (5, 200, "small", 2), (8, 50, "small", 0),
        (4, 60, "big", 1), (3, 50, "big", 2), (2, 50, "big", 0),
        (6, 80, "straddle", 1), (4, 100, "straddle", 2),
        (7, 60, "mixed", 1), (3, 120, "mixed", 0),
    ]
    reps = 2 if tier == "quick" else 6
    for rep in range(reps):
        for (nt, nr, shape, y) in plan:
            if rep > 0:
                nt = rng.range(2, 8)
                nr = rng.range(50, 500 if shape == "small" else 120)
            out.append(conc_case(rng, nt, nr, shape, y, rng.below(2), rng.choice(P)))
    return out


# ------------------------------------------------------------------ BufWriter alone

def bufw_cases(rng, tier):
    out = []
    n = 1200 if tier == "quick" else 20000
    for _ in range(n):
        cap = rng.choice([0, 1, 2, 3, 4, 8, 16])
        orc = []
        for _k in range(rng.below(8)):
            r = rng.below(12)
            if r == 0:
                orc.append([1])
            elif r == 1:
                orc.append([0, 0])
            else:
                orc.append([0, rng.range(1, cap + 3)])
        ops = []
        for _k in range(rng.range(1, 7)):
            r = rng.below(5)
            if r == 0:
                ops.append([2])
            else:
                d = body(rng, rng.choice([rng.below(2 * cap + 4), cap, max(cap - 1, 0), cap + 1]), False)
                ops.append([0 if r < 3 else 1, d])
        out.append([2, cap, orc, ops])
    return out


def shared_cases(rng, tier):
    out = []
    P = [[0], [1, b""], [1, b"pre-existing line\n"], [1, body(rng, 1030, True)]]
    # the two canonical shapes, with record sizes around the buffer size
    for pre in P:
        for s1 in (1, 30, 1024, 1500):
            for s2 in (1, 40, 1100):
                a, b, c = body(rng, s1, True), body(rng, s2, True), body(rng, 7, True)
                # old + new appender alive, straggler through the old one
                out.append([3, pre, [[2, 0], [0, 0, [a]], [2, 1], [0, 1, [b]], [0, 0, [c]], [0, 1, [b"z"]]]])
                # external writer between two appends
                out.append([3, pre, [[2, 0], [0, 0, [a]], [1, b], [0, 0, [c]], [1, b"ext\n"], [0, 0, [b"z"]]]])
    n = 250 if tier == "quick" else 4000
    for _ in range(n):
        ops = [[2, 0]]
        built = {0}
        budget = 9000
        for _k in range(rng.range(2, 9)):
            r = rng.below(10)
            if r < 2:
                h = rng.below(3)
                h = min(h, max(built) + 1)
                built.add(h)
                ops.append([2, h])
            elif r < 4:
                d = body(rng, rng.choice([1, 5, 60, 1024, 1300]), True)
                budget -= len(d)
                ops.append([1, d])
            else:
                rec = seq_record(rng, True, max(budget, 0))
                budget -= sum(len(x) for x in rec)
                ops.append([0, rng.choice(sorted(built)), rec])
        out.append([3, rng.choice(P), ops])
    return out


def corpus():
    return [
        [3, [1, b"pre\n"], [[2, 0], [0, 0, [b"old-1\n"]], [2, 1], [0, 1, [b"new-1\n"]], [0, 0, [b"old-2\n"]],
                            [1, b"external\n"], [0, 1, [b"a rather long record\n"]]]],
        # small record stays in the buffer unless flushed; 1024 bypasses; truncate then reopen in append mode
        [0, 0, 0, [1, b"OLD\n"], [[0, [b"a"]], [0, [b"b" * 1024]], [1, 1], [0, [b"c", b"", b"d"]], [1, 0], [0, [b"e"]]]],
        [0, 1, 1, [0], [[0, [b"hello"]], [0, [b""]], [0, [b"w" * 1500]]]],
        [2, 4, [[0, 1], [0, 0], [1]], [[0, b"ab"], [0, b"cdef"], [2], [1, b"ghijk"], [2]]],
    ]


def cases(rng, tier):
    return (seq_cases(rng.fork("seq"), tier) + shared_cases(rng.fork("shared"), tier)
            + conc_cases(rng.fork("conc"), tier) + bufw_cases(rng.fork("bufw"), tier))


# ------------------------------------------------------------------ pipeline hooks

def model_lines(ctx, cases, lines, impl_lines):
    vc = ctx["vc"]
    out = []
    for c, ln, il in zip(cases, lines, impl_lines):
        if c[0] != 1:
            out.append(ln)
            continue
        try:
            iv = vc.parse(il)
            obs = iv[0] if isinstance(iv, list) and iv and isinstance(iv[0], bytes) else b""
        except Exception:
            obs = b""
        out.append(vc.show(list(c) + [obs]))
    return out


def _first_bad_offset(c, obs):
    """where the greedy whole-record parse of the observed file stops (for the report only)"""
    pre = c[2][1] if (c[2][0] == 1 and c[1] == 1) else b""
    if not obs.startswith(pre):
        return 0
    pos = len(pre)
    nxt = [0] * len(c[4])
    recs = [[b"".join(r) for r in t] for t in c[4]]
    while pos < len(obs):
        for t in range(len(recs)):
            if nxt[t] < len(recs[t]) and obs.startswith(recs[t][nxt[t]], pos):
                pos += len(recs[t][nxt[t]])
                nxt[t] += 1
                break
        else:
            return pos
    return pos


def compare(c, iv, mv):
    if c[0] == 1:
        if not (isinstance(iv, list) and len(iv) == 2 and isinstance(iv[0], bytes)):
            return "concurrent run of the real appender failed: %r" % (iv if not isinstance(iv, list) else "malformed",)
        if not (isinstance(mv, list) and mv and mv[0] == 1):
            total = sum(len(b"".join(r)) for t in c[4] for r in t)
            return ("final file (%d bytes, records total %d) is not the open content followed by whole records in a "
                    "per-thread-order-preserving merge: parse stops at offset %d"
                    % (len(iv[0]), total, _first_bad_offset(c, iv[0])))
        if iv[1] != 0:
            return "%d append calls failed or returned before their record was readable in the file" % iv[1]
        return None
    if iv == mv:
        return None
    if isinstance(iv, list) and isinstance(mv, list):
        for k, (x, y) in enumerate(zip(iv, mv)):
            if x != y:
                what = "build" if (c[0] == 0 and k == 0) else "op %d" % (k - 1 if c[0] == 0 else k)
                if c[0] == 3 and isinstance(x, bytes) and isinstance(y, bytes):
                    n = 0
                    while n < min(len(x), len(y)) and x[n] == y[n]:
                        n += 1
                    return ("shared file after op %d (%s): file has %d bytes, model disk (all bytes in call order) "
                            "%d bytes, first difference at offset %d" % (k, describe(c)["ops"][k], len(x), len(y), n))
                if c[0] == 0 and isinstance(x, list) and isinstance(y, list) and len(x) == 2 and len(y) == 2:
                    return "after %s: file has %d bytes (ok=%s), model disk %d bytes (ok=%s)" % (
                        what, len(x[1]), x[0], len(y[1]), y[0])
                return "after %s: impl %r != model %r" % (what, x, y)
        return "different number of observations"
    return "impl != model"


def nontrivial(c):
    if c[0] == 0:
        return any(op[0] == 0 and any(len(ch) > 0 for ch in op[1]) for op in c[4])
    if c[0] == 1:
        return len(c[4]) >= 2
    if c[0] == 3:
        second = False
        for op in c[2][1:]:
            if op[0] in (1, 2):
                second = True
            elif second:
                return True
        return False
    return len(c[3]) >= 1


def classify(c):
    if c[0] == 0:
        n = sum(1 for op in c[4] if op[0] == 0)
        return "seq %s mode=%s pre=%s %s" % ("pattern" if c[1] else "scripted", "append" if c[2] else "truncate",
                                             "none" if c[3][0] == 0 else "present",
                                             "with-reopen" if len(c[4]) > n else "appends-only")
    if c[0] == 1:
        mx = max((len(ch) for t in c[4] for r in t for ch in r), default=0)
        return "conc threads=%d yield=%d maxchunk%s1024" % (len(c[4]), c[3], ">=" if mx >= 1024 else "<")
    if c[0] == 3:
        return "shared appenders=%d external=%s" % (len(set(op[1] for op in c[2] if op[0] == 2)),
                                                    "yes" if any(op[0] == 1 for op in c[2]) else "no")
    return "bufwriter cap=%d" % c[1]


def describe(c):
    if c[0] == 0:
        return {"kind": "sequential", "encoder": "pattern {m}{n}" if c[1] else "scripted",
                "mode": "append" if c[2] else "truncate",
                "pre": None if c[3][0] == 0 else "%d bytes" % len(c[3][1]),
                "ops": [("append chunks " + "+".join(str(len(ch)) for ch in op[1])) if op[0] == 0
                        else ("append, encoder fails after writing chunks " + "+".join(str(len(ch)) for ch in op[1])) if op[0] == 2
                        else ("reopen " + ("append" if op[1] else "truncate")) for op in c[4]]}
    if c[0] == 1:
        return {"kind": "concurrent", "mode": "append" if c[1] else "truncate",
                "pre": None if c[2][0] == 0 else "%d bytes" % len(c[2][1]),
                "yield": ["none", "yield_now", "sleep 30us"][c[3]],
                "threads": len(c[4]), "records_per_thread": [len(t) for t in c[4]],
                "bytes_total": sum(len(ch) for t in c[4] for r in t for ch in r)}
    if c[0] == 3:
        return {"kind": "shared file (all writers O_APPEND)", "pre": None if c[1][0] == 0 else "%d bytes" % len(c[1][1]),
                "ops": [("appender %d appends chunks " % op[1] + "+".join(str(len(ch)) for ch in op[2])) if op[0] == 0
                        else ("external append %d bytes" % len(op[1])) if op[0] == 1
                        else ("build appender %d (append mode)" % op[1]) for op in c[2]]}
    return {"kind": "bufwriter", "cap": c[1],
            "oracle": ["err" if r[0] else "acc %d" % r[1] for r in c[2]],
            "ops": [["write_all", "write", "flush"][op[0]] + (" %d" % len(op[1]) if op[0] < 2 else "") for op in c[3]]}


def extra_checks(ctx, cases, impl_lines, model_lines):
    """file appenders DECLARED IN CONFIGURATION FILES (C14's renderings: YAML / JSON / TOML, `append` given,
    null or omitted, files pre-populated): the open mode and what lands in the file must be those of the
    programmatic configuration"""
    from gen import xcheck

    def has_file_appender(c):
        # a rendering (not a mutant document) with a `file` appender whose `append` key is omitted or null
        try:
            from gen import c14
            if c[5] != "render":
                return False
            doc = c14.dec_tree(c[0])
            apps = doc.get("appenders") or {}
            return any(isinstance(a, dict) and a.get("kind") == "file" and a.get("append") is None
                       for a in apps.values())
        except Exception:
            return False
    res = xcheck.borrow(ctx, "C14", "a file appender declared in a configuration file", has_file_appender, n=60)
    return res + full_disk_checks(ctx)


def full_disk_oracle(a, pre, oks, final, recs):
    """every record whose append returned Ok is in the file, whole, in call order, after the content that was there
    before (append mode); what failed calls leave behind is not constrained"""
    pos = 0
    if a and pre:
        if not final.startswith(pre):
            return "the content that existed before the appender was built is not at the start of the file"
        pos = len(pre)
    for i, (ok, rec) in enumerate(zip(oks, recs)):
        if not ok:
            continue
        data = b"".join(rec)
        at = final.find(data, pos)
        if at < 0:
            return ("record %d (%d bytes), acknowledged with Ok, is not in the file as a whole after the earlier "
                    "acknowledged records (file: %d bytes)" % (i, len(data), len(final)))
        pos = at + len(data)
    return None


def full_disk_checks(ctx):
    """the disk is full for a while (RLIMIT_FSIZE, harness kind 5): appends fail, the limit is lifted, appends work
    again - on ONE appender, both open modes, records around the BufWriter capacity"""
    vc = ctx["vc"]
    rng = vc.Rng(ctx["seed"] * 77 + 5)
    cases = []
    for a in (1, 0):
        for pre in (b"", b"OLD-CONTENT\n", bytes(range(65, 91)) * 50):
            for room in (0, 1, 10, 1023, 1024, 1500, 3000):
                for _ in range(2):
                    recs = []
                    for i in range(rng.range(3, 7)):
                        n = rng.choice([1, 9, 40, 700, 1023, 1024, 1025, 2100])
                        data = tagged(rng, 0, i, max(n, 12), 1)
                        recs.append(split(rng, data, rng.range(1, 3)))
                    cases.append([5, a, [1, pre] if pre or rng.chance(1, 2) else [0], room, rng.range(1, len(recs) - 1), recs])
    lines = [vc.show(c) for c in cases]
    res = vc.run_lines([ctx["vh"]], lines, timeout_per_batch=300)
    mres = vc.run_lines([ctx["drv"]], lines, timeout_per_batch=300, crash_marker="xmodelcrash")
    bad = []
    failed_calls = 0
    modelled = 0
    for c, ln, r, mr in zip(cases, lines, res, mres):
        try:
            v = vc.parse(r)
            oks, final = [bool(x) for x in v[0]], bytes(v[1])
        except Exception:
            bad.append(("full disk for a while: the appender did not survive (%s)" % r[:100], {"case_line": ln}))
            break
        try:
            mv = vc.parse(mr)
        except Exception:
            raise vc.Broken("corr:C04/model-run", "model failed on a full-disk history: %s" % mr[:200])
        if mv != []:
            # room 0: the model (BufW over a script of failing writes) says which calls fail and what the file holds
            modelled += 1
            if [bool(x) for x in mv[0]] != oks or bytes(mv[1]) != final:
                bad.append(("the file could not grow while the first %d records were appended, then the disk worked again: "
                            "calls %r / file %d bytes, model %r / %d bytes" % (
                                c[4], ["Ok" if x else "Err" for x in oks], len(final),
                                ["Ok" if x else "Err" for x in mv[0]], len(bytes(mv[1]))),
                            {"case_line": ln, "impl_file": vc.jsonable(final), "model_file": vc.jsonable(bytes(mv[1]))}))
                break
        failed_calls += sum(1 for x in oks if not x)
        pre = bytes(c[2][1]) if c[2][0] == 1 else b""
        d = full_disk_oracle(c[1], pre, oks, final, [[bytes(x) for x in rec] for rec in c[5]])
        if d:
            bad.append(("the disk was full while the first %d records were appended (room for %d more bytes), then not any "
                        "more; mode %s; calls returned %r: %s" % (c[4], c[3], "append" if c[1] else "truncate",
                                                                  ["Ok" if x else "Err" for x in oks], d),
                        {"case_line": ln}))
            break
    ctx.setdefault("xcheck", {})["full_disk_histories"] = len(cases)
    ctx["xcheck"]["full_disk_failed_calls"] = failed_calls
    ctx["xcheck"]["full_disk_histories_run_on_the_model"] = modelled
    return bad
