"""C11 — any pattern string is safe: no panic, errors surface as {ERROR: ...}.
Case format and run protocol: gen/patcommon.py (ast field = () | ((node..) junk))."""
import itertools
from gen import patcommon as pc
from gen import c09 as g9
from gen.patcommon import cp

ALPHABET = "{}()\\:<>.5mdx "
RULE = ("(1) EXHAUSTIVE: every string over the 14 syntax symbols `{ } ( ) \\ : < > . 5 m d x space` of length "
        "<= 4 (quick, 41 371 strings) / <= 5 (thorough, 579 195), constructed and encoded; plus each string of "
        "length <= 3 with an e-acute inserted at every position; (2) one-character mutations (delete, insert, "
        "replace, swap neighbours; inserted characters from the syntax alphabet, digits, %, _, e-acute) of "
        "patterns printed from random well-formed ASTs (C09's generator: all formatters and aliases, dates, MDC, "
        "nested groups, specs); (3) widths with 18-30 digits around usize::MAX (exactly 2^64-1, 2^64, 10*2^64, "
        "leading zeros) as min and max width of leaves and groups - constructed only when the value exceeds 64; "
        "(4) well-formed AST followed by junk (unknown formatter, unclosed brace/parenthesis, stray specials, "
        "bad width, invalid strftime directive, invalid zone, random syntax strings): the AST's meaning must be a "
        "prefix of the output; (5) invalid / multi-piece zone arguments and invalid strftime formats; (6) rejected "
        "texts of 24-100 bytes made of 0-7 ASCII letters followed by 12 (24) copies of a 2-, 3- or 4-byte character "
        "as unknown formatter name, zone, date format, MDC key, unterminated formatter: every byte offset from 8 "
        "to 70 falls inside some character; (7) non-ASCII numeric characters (Arabic-Indic, superscript, fullwidth, Roman "
        "numeral, fraction, CJK, Devanagari, mathematical digit) in every width position; (8) dates rendered while the "
        "process's time zone changes, every third time into a zone whose daylight-saving time ends within the hour (the "
        "record's local time is in the repeated hour). Every call "
        "runs under catch_unwind on its own thread; patterns containing a digit run of value > 64 are "
        "constructed but not encoded. non-trivial = the pattern contains at least one syntax character; "
        "distinct = distinct case line")
ASSUMPTIONS = list(g9.ASSUMPTIONS) + [
    "encoding is exercised only for patterns whose explicit widths are <= 64 (larger widths: construction only), as the property's sanity bound allows",
    "error messages are compared verbatim with the model's (they are part of the visible marker)",
]
TRUSTED = list(g9.TRUSTED)
RELEASE_TOO = True          # the sampled cases also run through the release-profile harness (see ./check)
EXHAUSTIVE = {"quick": False, "thorough": False}


def prepare(ctx):
    pc.prepare(ctx, "c11")


run_impl = pc.run_impl
describe = pc.describe


def model_lines(ctx, cases, lines, impl_lines):
    return pc.model_lines(ctx, cases, lines, impl_lines, keep_junk=True)


def mode_for(pattern):
    """2 (construct only) when some digit run is an absurd width.  A run beyond
    usize::MAX must become an error chunk, so it is safe to encode - provided an
    implementation that wrapped instead would wrap to a small width too."""
    run = ""
    for ch in pattern + " ":
        if "0" <= ch <= "9":
            run += ch
        else:
            if run:
                v = int(run)
                if v > 64 and not (v >= 2 ** 64 and v % 2 ** 64 <= 64):
                    return 2
            run = ""
    return 1


RECS = [pc.FULL_REC, pc.BARE_REC,
        [1, cp("é€"), cp(""), [cp("m")], [], [7]],
        [2, cp(""), cp("tgt"), [], [cp("f")], []],
        [4, cp("a{b}"), cp("t"), [cp("")], [cp("")], [0]],
        [5, cp("x" * 9), cp("T"), [], [], [4294967295]]]
MDC0 = [[cp("m"), cp("mv")], [cp("x"), cp("xv")], [cp("d"), cp("dv")]]


def mk_str(pattern, k, envsel=None):
    return [mode_for(pattern), cp(pattern), RECS[k % len(RECS)], MDC0 if k % 2 == 0 else [],
            [cp("thr")] if k % 3 == 0 else [], [], envsel if envsel is not None else [k % 2, 0]]


def mutate(rng, s):
    ins = ALPHABET + "0123456789%_é" + "{}():"
    k = rng.below(4)
    if not s:
        return rng.choice(ins)
    i = rng.below(len(s))
    if k == 0:
        return s[:i] + s[i + 1:]
    if k == 1:
        return s[:i] + rng.choice(ins) + s[i:]
    if k == 2:
        return s[:i] + rng.choice(ins) + s[i + 1:]
    if i + 1 < len(s):
        return s[:i] + s[i + 1] + s[i] + s[i + 2:]
    return s + rng.choice(ins)


BIG = ["18446744073709551615", "18446744073709551616", "18446744073709551614", "184467440737095516150",
       "184467440737095516160", "99999999999999999999999", "9223372036854775808", "4294967296",
       "000000000000000000000000000005", "00000000000000000000018446744073709551615",
       "00000000000000000000018446744073709551616", "340282366920938463463374607431768211456",
       "1844674407370955161", "1844674407370955162", "18446744073709551609", "18446744073709551610",
       "18446744073709551619", "65", "64", "0",
       # beyond usize::MAX, congruent to a small width mod 2^64 (encoded: a wrapping parser shows)
       "18446744073709551621", "18446744073709551680", "55340232221128654849", "184467440737095516167",
       "36893488147419103232", "000018446744073709551617", "340282366920938463463374607431768211459"]
JUNK = ["}", "{", "{nope}", "{m", "{m:", "(", ")", "\\", "\\x", "{d(%Q)}", "{d(%Y)(mars)}", "{d()()()}", "{m(x)}",
        "{X}", "{X(a)(b)(c)}", "{h}", "{()()}", "{m:99999999999999999999}", "{m:5", "{(x}", "{(x)", "}}}", "{é}",
        "{m:.99999999999999999999}x", "{l:x}", "{l:5x}", "{thread_id", "{d(%", "{D}", "{R(a)(b)}", "x}y", "a(b"]


def cases(rng, tier):
    out = []
    k = 0
    # (1) exhaustive over the syntax alphabet
    maxlen = 4 if tier == "quick" else 5
    for n in range(0, maxlen + 1):
        for t in itertools.product(ALPHABET, repeat=n):
            s = "".join(t)
            out.append(mk_str(s, k))
            k += 1
            if n <= 3:
                for i in range(n + 1):
                    out.append(mk_str(s[:i] + "é" + s[i:], k))
                    k += 1
    envs = [[0, 0], [1, 0]] + ([[0, 1], [1, 1]] if tier == "thorough" else [])
    # (3) absurd widths
    for b in BIG:
        for tmpl in ("{m:%s}", "{m:.%s}", "{m:>%s}", "{l:0>%s.%s}", "{(ab):%s}", "{h({m:%s}):.%s}", "{m:5.%s}x",
                     "a{d(%%Y):%s}b", "{X(k)(d):-<%s}", "{m:%s.}"):
            s = tmpl.replace("%s", b).replace("%%", "%")
            for e in envs[::2]:
                out.append(mk_str(s, k, e))
            k += 1
    # (5) zones and date formats
    for z in ["utc", "local", "UTC", "", "utc ", "mars", "utc{{x", "local\\(", "{{utc", "{m}", "utc{m}", "ut\\c", "x{"]:
        for f in ["%Y", "", "%Q", "%", "%Y%", "%:", "%5", "{m}", "%Y{{", "%.", "%.3", "%3", "%:::z", "%#z", "%-Y %_m %0d"]:
            s = "{d(%s)(%s)}|" % (f, z)
            out.append(mk_str(s, k, envs[k % len(envs)]))
            k += 1
    # (6) long rejected texts: the text echoed in an error marker (unknown formatter name, invalid zone,
    # invalid date format, unexpected-character messages) is long and made of 1/2/3/4-byte characters so
    # that a character straddles every byte offset from 8 to 70 (a marker that shortens or slices the
    # echoed text at a fixed byte count must still be a visible, panic-free marker)
    units = ["é", "ñ", "日", "€", "𝄞", "ß"]
    for n_ascii in range(0, 8):
        for u in units:
            body = "a" * n_ascii + u * (12 if tier == "quick" else 24)
            for tmpl in ("{%s}", "x{%s}y", "{d(%%Y)(%s)}", "{d(%%Q%s)}", "{m}{%s", "{X(%s)}", "{%s(m)}"):
                s6 = tmpl.replace("%s", body).replace("%%", "%")
                out.append(mk_str(s6, k, envs[k % len(envs)]))
                k += 1
    # (7) characters that are numeric but not ASCII digits where a width is expected (Arabic-Indic, superscript,
    # fullwidth, Roman numeral, vulgar fraction, CJK numeral): a syntax error, never a panic
    for ch in ["\u0663", "\u00b2", "\uff15", "\u2163", "\u00bd", "\u4e09", "\u0967", "\U0001d7d7"]:
        for tmpl in ("{m:%s}", "{m:>%s}", "{m:4.%s}", "{m:.%s}", "{m:*<%s}", "{m:1%s}", "{(a{m}):%s.2}", "{l:%s%s}", "{m:%s5}"):
            out.append(mk_str(tmpl.replace("%s", ch), k, envs[k % len(envs)]))
            k += 1
    # (8) dates rendered while the process's time zone changes, incl. a zone in which "now" falls into the
    # repeated hour at the end of daylight-saving time (C09's family (f)): never a panic
    for c in g9.tz_switch_cases(rng, tier, envs):
        out.append([c[0], c[1], c[2], c[3], c[4], [], c[6]])
    # (2) mutations, (4) prefix + junk
    n_mut = 3000 if tier == "quick" else 40000
    n_pre = 1200 if tier == "quick" else 12000
    for i in range(n_mut):
        seq = g9.g_seq(rng, rng.choice([1, 2, 2, 3]), False, mdc_class_ok=True, lookahead_ok=True)
        s = pc.print_seq(seq)
        for _ in range(rng.choice([1, 1, 1, 2, 3])):
            s = mutate(rng, s)
        c = g9.mk(rng, tier, seq)
        out.append([mode_for(s), cp(s), c[2], c[3], c[4], [], c[6]])
    for i in range(n_pre):
        seq = g9.g_seq(rng, rng.choice([1, 2, 2, 3]), False, mdc_class_ok=False, lookahead_ok=False)
        if rng.chance(2, 3):
            junk = rng.choice(JUNK)
        else:
            junk = "".join(rng.choice(ALPHABET) for _ in range(rng.range(1, 6)))
        if rng.chance(1, 4):
            junk += pc.print_seq(g9.g_seq(rng, 1, False, False, False))
        s = pc.print_seq(seq) + junk
        c = g9.mk(rng, tier, seq)
        out.append([mode_for(s), cp(s), c[2], c[3], c[4], [seq, cp(junk)], c[6]])
    return out


def corpus():
    """the inputs of the fixed findings (regressions) and of the open one"""
    pats = ["{m:99999999999999999999999}", "{d(%Q)}", "{d(%#z)}", "{thread_id}x", "{d(%Y)(utc{{x)}", "{m:}<", "{m:}>x",
            "{X(a{{b)}", "{d} {l} {t} - {m}{n}", "{h({l}):<5.5} {({M}:{L}):>20.40} {f} \\{{{}}"]
    return [mk_str(p, i, [0, 0]) for i, p in enumerate(pats)]


def _parts(impl, model):
    ires = impl[3] if isinstance(impl, list) and len(impl) == 4 else impl
    mres, flags, errs, meaning = model
    return ires, mres, flags, errs, meaning


def _direct(case, ires, mres, flags, errs, meaning):
    """oracles that do not go through the encode model"""
    if case[0] == 2 or not isinstance(ires, list):
        return None
    fl = pc.flat(ires)
    text = "".join(chr(x) for x in fl if isinstance(x, int))
    pos = 0
    for m in errs:
        marker = "{ERROR: " + pc.uncp(m) + "}"
        j = text.find(marker, pos)
        if j < 0:
            return "error %r not visible (in order) in the output %r" % (marker, text[:300])
        pos = j + len(marker)
    tz_class, has_err, has_ast, prefix_ok = flags
    if has_ast and prefix_ok and isinstance(meaning, list):
        if not pc.flat_prefix_match(fl, pc.flat(meaning)):
            return "well-formed prefix does not render: meaning %r output %r" % (pc.show_ev(meaning)[:300], text[:300])
    return None


def compare(case, impl, model):
    ires, mres, flags, errs, meaning = _parts(impl, model)
    if ires == b"panic":
        return "pattern %r: panic" % pc.uncp(case[1])
    if not pc.ev_match(ires, mres):
        return "impl != model: impl %r model %r" % (pc.show_ev(ires)[:300], pc.show_ev(mres)[:300])
    d = _direct(case, ires, mres, flags, errs, meaning)
    if d:
        return d
    if flags[0]:
        return "known class: zone argument of several pieces accepted without an error marker"
    return None


def known_finding(case, impl, model):
    ires, mres, flags, errs, meaning = _parts(impl, model)
    if not pc.ev_match(ires, mres) or _direct(case, ires, mres, flags, errs, meaning):
        return None
    if flags[0]:
        return "F-C11-tz-first-piece"
    return None


def nontrivial(case):
    return any(chr(x) in "{}()\\:" for x in case[1])


def classify(case):
    if case[5]:
        return "prefix+junk"
    n = len(case[1])
    return "len<=5" if n <= 5 else "len<=20" if n <= 20 else "len>20"


def extra_checks(ctx, cases_, impl_lines, model_lines_):
    """"encoding any record never panics" quantifies over records too: a record whose message, while it is being
    formatted, has another record encoded on the same thread (logging from a Display impl), a record whose message
    fails half-way, a record encoded after earlier ones failed on the thread - C09's record families (modes 6 and 9)"""
    from gen import xcheck
    res = xcheck.borrow(ctx, "C09", "encoding never panics, whatever the record's message does while it is formatted",
                        lambda c: c[0] in (6, 9), n=300)
    return res or huge_max_checks(ctx) or wide_spec_checks(ctx) or thread_exit_checks(ctx)


def huge_max_checks(ctx):
    """A MAXIMUM width only ever cuts: however large it is (up to usize::MAX) it asks for nothing to be produced, so a
    pattern with such a maximum is ENCODED here (the model keeps widths in unary naturals and is not run on them): the
    output must be that of the same pattern with maximum 64, for records whose fields are shorter than that - and the
    encoder must not panic or abort."""
    vc = ctx["vc"]
    pairs = []
    k = 900000
    for b in ("18446744073709551615", "18446744073709551614", "9223372036854775808", "9223372036854775807",
              "4294967296", "1099511627776", "00000000000018446744073709551615"):
        for tmpl in ("{m:.%s}", "{m:>5.%s}", "{m:<5.%s}|", "{l:0>7.%s}", "{(ab):9.%s}", "{h({m:.%s}):>30.%s}", "{m:5.%s}x",
                     "{X(k)(d):-<6.%s}", "[{({l} {m}):>12.%s}]", "{D({m:>3.%s})}{R(x):.%s}"):
            big = mk_str(tmpl.replace("%s", b), k)
            ref = mk_str(tmpl.replace("%s", "64"), k)
            big[0] = ref[0] = 1
            pairs.append((big, ref))
            k += 1
    lines = [vc.show(c) for p in pairs for c in p]
    res = vc.run_lines([ctx["vh"]], lines, timeout_per_batch=300)
    out = []
    for i, (big, ref) in enumerate(pairs):
        rb, rr = res[2 * i], res[2 * i + 1]
        try:
            vb, vr = vc.parse(rb), vc.parse(rr)
            same = isinstance(vb, list) and isinstance(vr, list) and len(vb) == 4 and vb[3] == vr[3]
        except Exception:
            same = False
        if not same:
            out.append(("a pattern whose MAXIMUM width is huge (%s) does not encode like the same pattern with maximum 64: %s vs %s"
                        % ("".join(chr(x) for x in big[1]), rb[:200], rr[:200]),
                        {"case_line": lines[2 * i], "reference_case_line": lines[2 * i + 1]}))
            break
    ctx.setdefault("xcheck", {})["patterns_with_huge_maximum_width_encoded"] = len(pairs)
    return out


def wide_spec_checks(ctx, vh=None):
    """Width specs the unary model is not run on, judged directly from the property text (shared by C09, C10, C11):
    (a) a MAXIMUM width of 2^k + r (k = 8, 16, 31, 32, 33, 40, 63; small r) cuts nothing from a 9-character text
        (any width field narrower than usize shows as a cut at r);
    (b) a MINIMUM width of 65 535 .. 70 001 pads to exactly that many characters, left and right, space and
        non-ASCII fill (a fill written through a formatting width, a u16 counter);
    (c) a MINIMUM width no sink can hold (2^32 .. 2^64-1) into a sink that takes 300 bytes and then fails: the
        text and then fill up to the 300 bytes must have been written, and encode must report the error."""
    vc = ctx["vc"]
    vh = vh or ctx["vh"]
    out = []
    K9 = 5                      # RECS[5]: message "xxxxxxxxx", level TRACE
    assert RECS[K9 % len(RECS)][1] == cp("x" * 9)

    def run(cases_):
        lines = [vc.show(c) for c in cases_]
        return lines, vc.run_lines([vh], lines, timeout_per_batch=300)

    def text_of(r):
        v = vc.parse(r)
        if not (isinstance(v, list) and len(v) == 4 and isinstance(v[3], list)):
            return None, v
        if v[3] and v[3][0] == b"err":
            return "".join("".join(chr(x) for x in e) for e in v[3][1] if isinstance(e, list)), "err"
        return "".join("".join(chr(x) for x in e) for e in v[3] if isinstance(e, list)), "ok"

    # (a)
    cs, meta = [], []
    for base, r in ((1 << 8, 3), (1 << 16, 3), (1 << 16, 0), (1 << 31, 5), (1 << 32, 1), (1 << 32, 3), (1 << 32, 5), (1 << 33, 5),
                    (1 << 40, 5), (1 << 63, 5), (3 << 32, 2), ((1 << 64) - (1 << 32), 4)):
        for tmpl in ("{m:.%d}", "{m:>12.%d}|", "{m:-<13.%d}", "[{({l} {m}):.%d}]", "{h({m:.%d})}"):
            c = mk_str(tmpl % (base + r), K9)
            c[0] = 1
            cs.append(c)
            ref = mk_str(tmpl % 64, K9)
            ref[0] = 1
            cs.append(ref)
            meta.append(tmpl % (base + r))
    lines, res = run(cs)
    for i, pat in enumerate(meta):
        try:
            same = vc.parse(res[2 * i])[3] == vc.parse(res[2 * i + 1])[3]
        except Exception:
            same = False
        if not same:
            out.append(("a maximum width larger than the text cuts nothing: %s does not encode like the same pattern with maximum 64: %s vs %s"
                        % (pat, res[2 * i][-160:], res[2 * i + 1][-160:]), {"case_line": lines[2 * i], "reference_case_line": lines[2 * i + 1]}))
            return out
    ctx.setdefault("xcheck", {})["max_widths_2^k_plus_r_encoded"] = len(meta)
    # (b)
    cs, meta = [], []
    for w in (65535, 65536, 65537, 70001):
        for spec, fill, right in (("%d", " ", False), (">%d", " ", True), ("-<%d", "-", False), ("\u00e9>%d", "\u00e9", True), ("<%d", " ", False)):
            c = mk_str("[{m:" + spec % w + "}]", K9)
            c[0] = 1
            cs.append(c)
            meta.append((w, fill, right, "[{m:" + spec % w + "}]"))
    lines, res = run(cs)
    for i, (w, fill, right, pat) in enumerate(meta):
        try:
            got, st = text_of(res[i])
        except Exception:
            got, st = None, res[i][:120]
        pad = fill * (w - 9)
        want = "[" + (pad + "x" * 9 if right else "x" * 9 + pad) + "]"
        if got != want or st != "ok":
            out.append(("a minimum width pads to exactly that many characters: %s wrote %s character(s) (%s), the property says %d: '[', the 9 of "
                        "the text %s %d x %r, ']'" % (pat, "no" if got is None else len(got), st if got is None else "status " + str(st), len(want),
                                                      "after" if right else "before", w - 9, fill),
                        {"case_line": lines[i]}))
            return out
    ctx.setdefault("xcheck", {})["min_widths_around_2^16_encoded"] = len(meta)
    # (c)
    cs, meta = [], []
    for w in ((1 << 64) - 1, 1 << 63, (1 << 63) + 5, (1 << 63) - 1, 1 << 32, (1 << 62) + 1):
        for spec, fill, right in (("%d", " ", False), ("-<%d", "-", False), (">%d", " ", True), ("*>%d", "*", True)):
            c = mk_str("{m:" + spec % w + "}", K9)
            c[0] = 7
            cs.append(c)
            meta.append((w, fill, right, "{m:" + spec % w + "}"))
    lines, res = run(cs)
    for i, (w, fill, right, pat) in enumerate(meta):
        try:
            got, st = text_of(res[i])
        except Exception:
            got, st = None, res[i][:120]
        want = (fill * 300) if right else ("x" * 9 + fill * 291)
        if got != want or st != "err":
            out.append(("a minimum width no sink can hold, into a sink that takes 300 bytes and then fails: %s must write %s and report "
                        "the sink's error; it wrote %r... (%s character(s)) with status %s" %
                        (pat, "300 fill characters" if right else "the text and 291 fill characters", (got or "")[:24],
                         "no" if got is None else len(got), st), {"case_line": lines[i]}))
            return out
    ctx.setdefault("xcheck", {})["unreachable_min_widths_into_failing_sink"] = len(meta)
    return out


def thread_exit_checks(ctx, vh=None):
    """The record is encoded while its thread exits (from the destructor of a thread-local of the application), after the
    same pattern was encoded once on the live thread - in both orders of registration of the application's thread-local
    and the thread's first encode.  "Encoding any record never panics" and the width law do not depend on when in a
    thread's life the record is logged: the output must be what the live thread wrote for the same case (thread-id
    formatters: no panic, same shape).  Not asked for: local-zone dates and MDC lookups - chrono's per-thread zone cache
    and log_mdc's map are thread-locals of those crates and are gone at that point (on the unchanged tree too)."""
    vc = ctx["vc"]
    vh = vh or ctx["vh"]
    pats = ["{m}", "{m:>12}", "{m:<12}|", "{m:>12.5}", "{m:-<9.3}", "{l:>7}", "{l:*>7.2} {t:>8}", "[{({l} {m}):>20}]", "{h({l:>6} {m:>10})}",
            "{M:>10} {f:>8}:{L:>5}", "{T:>10}", "{P:>9}", "{pid}", "{n}", "{D({m:>9})}{R(x)}", "{d(%Y-%m)(utc):>10}", "{h({m:>4.2})} {l}",
            "{({m:>3}|{l:>6}):>14}", "{m:é>11}", "{t:>6.6}{m:>6.6}"]
    idpats = ["{i}", "{I:>18}", "{thread_id} {tid}", "{i:>12} {m:>7}"]
    cs, meta = [], []
    k = 0
    for p in pats + idpats:
        for kk in range(4):
            live = mk_str(p, k)
            live[0] = 1
            live[3] = []
            ex = [8] + live[1:]
            cs += [live, ex, list(ex)]          # the exit case twice: both registration orders
            meta.append((p, p in idpats))
            k += 1
    lines = [vc.show(c) for c in cs]
    res = vc.run_lines([vh], lines, timeout_per_batch=600)
    n = 0
    for j, (p, idp) in enumerate(meta):
        try:
            live = vc.parse(res[3 * j])[3]
        except Exception:
            continue
        if not isinstance(live, list):
            continue            # not encodable on a live thread either (outside this check)
        for r, ln in ((res[3 * j + 1], lines[3 * j + 1]), (res[3 * j + 2], lines[3 * j + 2])):
            try:
                v = vc.parse(r)
                got = v[3] if isinstance(v, list) and len(v) == 4 else v
            except Exception:
                got = r[:120]
            n += 1
            ok = isinstance(got, list) and (idp and [type(e) for e in got] == [type(e) for e in live] or got == live)
            if not ok:
                return [("a record encoded while its thread exits (from a thread-local destructor, after one encode on the live "
                         "thread): pattern %s wrote %r, on the live thread the same case wrote %r" % (p, vc.jsonable(got), vc.jsonable(live)),
                         {"case_line": ln, "live_case_line": lines[3 * j]})]
    ctx.setdefault("xcheck", {})["records_encoded_at_thread_exit"] = n
    return []
