"""C07 — fixed-window roller keeps the newest `count` files; delete roller; count 0; gaps.
case: ( kind b c gz pattern ( (envname envvalue) ... ) file ( (path bytes) ... ) ( op ... ) )
  kind 0 FixedWindowRoller / 1 DeleteRoller; op (0) roll as is | (1 bytes) write the file then roll
All paths are relative to the case's private directory (the harness's cwd during the case)."""

RULE = ("exhaustive part: base in {0,1,3} x count in {0..4} x every presence mask of pre-existing archives "
        "over the indices base-1..base+count (the two never-touched neighbours included) x 8 pattern shapes "
        "(index in file name, in a directory component, in both, repeated, behind a $ENV directory, inside a $ENV "
        "variable name, .gz, .zst) with bystander files, count+2 successive write+roll operations, full recursive "
        "listing compared after every roll; then u32-edge bases (base+count around 2^32, incl. the remaining "
        "debug-overflow panic), the delete roller, and random cases (count <= 6, random masks, random "
        "contents incl. empty/binary, roll-without-file operations). non-trivial = at least one roll happens "
        "with count >= 1 on a fixed-window roller or a delete/count-0 roll of an existing file; distinct = "
        "distinct case line")
ASSUMPTIONS = [
    "no OS error other than NotFound and EXDEV occurs (no permission problems, no directory sitting at an archive name)",
    "gzip / zstd archives are observed through decompression in the harness (decompress(compress x) = x is the contract of flate2 / zstd; one abstract codec in the model)",
    "$ENV references in patterns are to variables whose values contain no '$', '{' or '}' (general expansion is C19)",
    "archive names are pairwise distinct and differ from the rolled file's path (true for every generated pattern)",
    "debug profile (overflow checks on), background_rotation feature off",
    "move_file's copy+delete fallback is exercised only when /dev/shm is a different device than the temp directory "
    "(cases whose file or pattern lives under xm/); otherwise those cases degrade to ordinary renames",
]
RELEASE_TOO = True          # the sampled cases also run through the release-profile harness (see ./check)
EXHAUSTIVE = {"quick": False, "thorough": False}
TRUSTED = ["libc dup2-based stdout silencing in the harness (the crate println!s on a failed final step)"]

U32 = 1 << 32

# (pattern, env-builder) ; env values are relative directories / names
PATTERNS = [
    "a.{}.log",
    "{}/a.log",
    "arch/a.{}.{}.log",
    "$ENV{C07D}/a.{}",
    "$ENV{C07N{}}.log",
    "z/a.{}.gz",
    "arch/{}/a.{}.log",
    "zs/a.{}.zst",
    # a file name that is only an extension-like word has NO extension (Path::extension of ".gz" is None): plain copy
    "dotf/{}/.gz",
    "dotz{}/.zst",
    # a pattern is an opaque string: trailing line breaks belong to the archive's name (and "gz\n" is not "gz")
    "nl/a.{}.log\n",
    "nl/b.{}.gz\r\n",
]


def rust_extension(path):
    """std::path::Path::extension of the pattern text"""
    comps = [c for c in path.split("/") if c not in ("", ".")]
    if not comps or comps[-1] == "..":
        return None
    name = comps[-1]
    i = name.rfind(".")
    return None if i <= 0 else name[i + 1:]


def env_for(pattern, b, c):
    if "C07D" in pattern:
        return [["C07D", "envd/x"]]
    if "C07N" in pattern:
        lo = max(0, b - 1)
        return [["C07N%d" % i, "n/v%d" % (i * 7 + 1)] for i in range(lo, min(U32, b + c + 2))]
    return []


def name_of(pattern, env, i):
    s = pattern.replace("{}", str(i))
    for k, v in env:
        s = s.replace("$ENV{%s}" % k, v)
    return s


def mk(kind, b, c, pattern, file, present, ops, extra=()):
    env = env_for(pattern, b, c)
    init = [[name_of(pattern, env, i), b"old%d" % i] for i in present]
    init += [[file + ".bak", b"bak"], [pattern.replace("{}", "x").replace("$ENV{", "E").replace("}", ""), b"by1"],
             ["unrelated/deep/f.txt", b"by2"]]
    init += [list(e) for e in extra]
    gz = 1 if rust_extension(pattern) in ("gz", "zst") else 0     # compressed (gzip or zstd): one abstract codec in the model
    return [kind, b, c, gz, pattern, env, file, init, ops]


def corpus():
    # index inside a $ENV variable NAME where only SOME indices name a set variable whose value
    # has a directory part: the archive directories differ although index `base` and the raw
    # pattern share their parent (the case the `parent_varies` shortcut of rotate() got wrong)
    out = []
    for (pattern, env) in (("d/$ENV{C07X{}}", [["C07X1", "r/s"]]),
                           ("d/f{}$ENV{C07Y{}}", [["C07Y1", "/s"], ["C07Y2", "/t/u"]]),
                           ("$ENV{C07Z{}}", [["C07Z2", "deep/er/z"]])):
        for c in (2, 3):
            ops = [[1, b"roll%d;" % k] for k in range(c + 1)]
            out.append([0, 0, c, 0, pattern, env, "app.log", [["keep.me", b"by"]], ops])
    return out


def cases(rng, tier):
    out = []
    # exhaustive small scope
    for pi, pattern in enumerate(PATTERNS):
        for b in (0, 1, 3):
            for c in range(0, 5):
                idx = [i for i in range(b - 1, b + c + 1) if i >= 0]
                for mask in range(1 << len(idx)):
                    present = [i for k, i in enumerate(idx) if mask >> k & 1]
                    ops = [[1, b"r%d;" % k] for k in range(c + 2)]
                    file = "app.log" if (pi + b) % 2 == 0 else "logs/cur.log"
                    out.append(mk(0, b, c, pattern, file, present, ops))
    # u32 edges: names only, tiny counts
    for (b, c) in [(U32 - 1, 1), (U32 - 2, 2), (U32 - 3, 3), (U32 - 1, 2), (U32 - 2, 3), (U32 - 1, 0),
                   (U32 - 1, 3), (U32 - 5, 4), (U32 - 4, 4)]:
        for pattern in ("a.{}.log", "{}/a.log", "z/a.{}.gz"):
            present = [i for i in range(b - 1, min(U32, b + c + 1))]
            for pres in (present, present[::2], []):
                out.append(mk(0, b, c, pattern, "app.log", pres, [[1, b"n%d" % k] for k in range(c + 2)]))
    # active file and archives on DIFFERENT mounts (harness: `xm/` is a symlink into /dev/shm when
    # that is another device): rename fails with EXDEV, move_file falls back to copy + remove.
    # Contents shrink from roll to roll so that a destination that is not replaced wholesale shows.
    for (pattern, file) in (("a.{}.log", "xm/app.log"), ("xm/a.{}.log", "app.log"), ("xm/z.{}.gz", "logs/cur.log"),
                            ("xm/z.{}.zst", "app.log")):
        for b in (0, 1):
            for c in (1, 2, 3):
                for present in ([], [b], list(range(b, b + c))):
                    ops = [[1, b"first-and-longest-content;"], [1, b"second;"], [1, b""], [1, b"4th"], [1, b"x" * 40]]
                    out.append(mk(0, b, c, pattern, file, present, ops[: c + 3]))
    # the environment changes between two rolls of ONE roller (a $ENV reference in the pattern is expanded at every
    # roll): later rolls shift and write under the new value, what lies under the old value stays as it is
    for (pattern, var, v1, v2) in (("$ENV{C07D}/a.{}", "C07D", "envd/x", "envd/y"), ("$ENV{C07D}/a.{}", "C07D", "envd/x", "other"),
                                   ("p/$ENV{C07V}.{}.log", "C07V", "one", "two"), ("$ENV{C07V}{}.gz", "C07V", "g/a", "g/b")):
        for b in (0, 1):
            for c in (1, 2, 3):
                for switch_at in (1, 2, c + 1):
                    ops = []
                    for k in range(c + 4):
                        if k == switch_at:
                            ops.append([2, var, v2])
                        if k == switch_at + 2 and rng.chance(1, 2):
                            ops.append([2, var, v1])
                        ops.append([1, b"e%d;" % k])
                    case = mk(0, b, c, pattern, "app.log", [], ops)
                    case[5] = [[var, v1]]
                    out.append(case)
    # the process changes its working directory between building the roller and rolling, and between two rolls: a
    # relative pattern (and the relative log path) is resolved against the directory of the moment
    for pattern in ("a.{}.log", "arch/a.{}.log", "z/a.{}.gz", "{}/a.log"):
        for b in (0, 1):
            for c in (1, 2, 3):
                for seq in ((["w"], 0), (["w", ""], 1), (["deep/er", "w"], 2)):
                    dirs, first_at = seq
                    ops = []
                    k = 0
                    for j in range(c + 3):
                        if j == first_at and k < len(dirs):
                            ops.append([4, dirs[k]]); k += 1
                        elif j == first_at + 2 and k < len(dirs):
                            ops.append([4, dirs[k]]); k += 1
                        ops.append([1, b"c%d;" % j])
                    out.append(mk(0, b, c, pattern, "app.log", [], ops))
    # the archive directory is removed by somebody else between two rolls of one roller (also of a clone of it - the
    # harness uses clones every other case): the next roll creates it again, as the first one did
    for (pattern, d) in (("arch/a.{}.log", "arch"), ("deep/er/a.{}.gz", "deep"), ("deep/er/a.{}.log", "deep/er"),
                         ("arch/{}/a.log", "arch")):
        for b in (0, 1):
            for c in (1, 2, 3):
                for at in (1, 2, 3):
                    ops = []
                    for k in range(c + 3):
                        if k == at:
                            ops.append([3, d])
                        ops.append([1, b"d%d;" % k])
                    out.append(mk(0, b, c, pattern, "app.log", [], ops))
    # big files that hardly compress (pseudo-random bytes, 70 KB .. 300 KB): whatever block size an archiver copies
    # with and however many bytes a compressor accepts per call, the archive holds the whole file
    for (pattern, sizes) in (("z/a.{}.gz", [70000, 150001]), ("zs/a.{}.zst", [70000, 131072]), ("a.{}.log", [70000])):
        for n in (sizes if tier == "quick" else sizes + [300000]):
            blob = bytes((rng.below(256) for _ in range(4096))) * (n // 4096 + 1)
            # (a 4 KiB random block repeated would compress: make every block different)
            blob = bytes((b + (i >> 12) * 17 + (i >> 8)) & 255 for i, b in enumerate(blob[:n]))
            out.append(mk(0, 1, 2, pattern, "app.log", [], [[1, blob], [1, b"small;"], [1, blob[: n // 2]]]))
    # delete roller
    for pattern in ("a.{}.log",):
        for present in ([], [0, 1]):
            out.append(mk(1, 0, 2, pattern, "app.log", present, [[1, b"x"], [0], [1, b""], [1, b"y"]]))
    # random
    n_rand = 1200 if tier == "quick" else 30000
    for _ in range(n_rand):
        pattern = rng.choice(PATTERNS)
        kind = 0 if rng.chance(15, 16) else 1
        c = rng.choice([0, 1, 1, 2, 2, 3, 3, 4, 5, 6])
        if rng.chance(1, 10):
            b = U32 - rng.range(1, 8)
        else:
            b = rng.choice([0, 0, 1, 2, 3, 9, 10, 99, 100, 1000, 65535])
        lo = max(0, b - 2)
        hi = min(U32 - 1, b + c + 2)
        present = [i for i in range(lo, hi + 1) if rng.chance(1, 2)]
        ops = []
        for k in range(rng.range(1, c + 4)):
            if rng.chance(1, 8):
                ops.append([0])
            else:
                n = rng.choice([0, 1, 3, 8, 40])
                if rng.chance(1, 3):
                    data = bytes(rng.below(256) for _ in range(n))
                else:
                    data = (b"k%d:" % k) + bytes(97 + rng.below(26) for _ in range(n))
                ops.append([1, data])
        file = rng.choice(["app.log", "logs/cur.log", "a.log", "a..log"])
        out.append(mk(kind, b, c, pattern, file, present, ops))
    return out


def _canon(v):
    if isinstance(v, (bytes, bytearray)):
        return bytes(v)
    return [[st, sorted([bytes(p), bytes(cn)] for p, cn in lst)] for st, lst in v]


def compare(case, impl, model):
    try:
        ci, cm = _canon(impl), _canon(model)
    except Exception:
        return "malformed result: impl=%r model=%r" % (impl, model)
    if ci == cm:
        return None
    if isinstance(ci, bytes) or isinstance(cm, bytes):
        return "impl %r vs model %r" % (ci if isinstance(ci, bytes) else "listing", cm if isinstance(cm, bytes) else "listing")
    for k, (a, m) in enumerate(zip(ci, cm)):
        if a[0] != m[0]:
            return "op %d: roll returned %s, model %s" % (k, ["Ok", "Err"][a[0]], ["Ok", "Err"][m[0]])
        if a[1] != m[1]:
            da, dm = dict(map(tuple, a[1])), dict(map(tuple, m[1]))
            diff = sorted(p for p in set(da) | set(dm) if da.get(p) != dm.get(p))
            return "op %d: directory differs at %s" % (k, ", ".join(p.decode("utf-8", "replace") for p in diff[:4]))
    return "different number of results"


def nontrivial(c):
    kind, b, cnt, gz, pattern, env, file, init, ops = c
    return len(ops) > 0 and any(o[0] == 1 for o in ops)


def classify(c):
    kind, b, cnt, gz, pattern, env, file, init, ops = c
    if kind == 1:
        return "delete roller"
    return "count=%d%s%s" % (cnt, " gz" if gz else "", " base~2^32" if b > U32 - 100 else "")


def describe(c):
    kind, b, cnt, gz, pattern, env, file, init, ops = c
    return {"roller": "fixed_window" if kind == 0 else "delete", "base": b, "count": cnt, "pattern": pattern,
            "env": env, "file": file,
            "initial_files": [p if isinstance(p, str) else p.decode() for p, _ in init],
            "ops": ["roll" if o[0] == 0 else "setenv %s=%s" % (o[1], o[2]) if o[0] == 2 else "somebody removes directory %s" % o[1]
                    if o[0] == 3 else "chdir to <root>/%s" % o[1] if o[0] == 4 else "write %r + roll" % bytes(o[1]) for o in ops]}


def extra_checks(ctx, cases, impl_lines, model_lines):
    """several rollers with pairwise disjoint archive names sharing ONE not-yet-existing archive directory
    tree (one or three missing levels) roll for the first time at the same moment (8 threads behind a barrier, 200 rounds plain + 40 gzip):
    every roll must succeed and put its file at its own base name (direct oracle; the window theorems are
    per roller and the rollers share no name)"""
    vc = ctx["vc"]
    res = []
    lines = [vc.show([9, 200, 8, 0]), vc.show([9, 40, 8, 1])]
    got = vc.run_lines([ctx["vh"]], lines, timeout_per_batch=300)
    for ln, g in zip(lines, got):
        try:
            v = vc.parse(g)
        except Exception:
            v = None
        if v != [0, 0]:
            res.append(("rollers with disjoint archive names sharing a fresh archive directory, first rolls at the same "
                        "moment: (rolls that returned Err, files not at their base archive name) = %r" % (v if v is not None else g,),
                        {"case_line": ln}))
            break
    ctx.setdefault("xcheck", {})["concurrent_first_rolls"] = 240 * 8
    if res:
        return res
    # archive names with $ENV references: every kind of variable and value C19 knows (unset, set, set to bytes that
    # are not UTF-8, malformed references): the archives go where the one-pass expansion of the pattern says
    from gen import xcheck
    res = xcheck.borrow(ctx, "C19", "archives are named by the expanded pattern", lambda c: c[0] in (2, 12), n=300, seed_salt=43)
    return res or bg_clone_checks(ctx, cases, model_lines)


SETUP_FEATURE_BUILDS = ["background_rotation"]   # bg_clone_checks


def bg_clone_checks(ctx, cases, model_lines_):
    """the crate built with `background_rotation`: a roller and a CLONE of it (both in use) roll the same log file in
    turn while the first rotation is slow.  The window is the roller's, however many clones act for it: rotations
    happen one after the other, and when everything has settled the directory is the one the synchronous model
    reaches with the same rolls."""
    vc = ctx["vc"]
    idx = [i for i, c in enumerate(cases) if c[0] == 0 and c[2] >= 2 and c[1] + c[2] <= U32 and all(o[0] == 1 for o in c[8]) and len(c[8]) >= 3
           and "ENV" not in (c[4] if isinstance(c[4], str) else "") and not str(c[4]).startswith("xm/") and not str(c[6]).startswith("xm/")]
    idx = idx[:: max(1, len(idx) // 24)][:24]
    if not idx:
        return []
    exe = vc.build_harness("c07", features="background_rotation")
    lines = [vc.show([8] + list(cases[i][1:])) for i in idx]
    got = vc.run_lines([exe], lines, timeout_per_batch=600)
    ran = 0
    for i, ln, g in zip(idx, lines, got):
        try:
            iv, mv = vc.parse(g), vc.parse(model_lines_[i])
            want = mv[-1][1]
        except Exception:
            return [("a roller and its clone rolling in turn (background_rotation build): the harness did not return normally (%s)" % g[:120],
                     {"case_line": ln})]
        if iv == [b"err", 1] or any(e[0] != 0 for e in mv):
            continue            # a roll that fails: the background build leaves the renamed file behind (not compared)
        ran += 1
        if iv[0] != 0:
            return [("background_rotation build: a roll through a CLONE of the roller began its rotation while the original's "
                     "rotation was still running (rotations of one roller must follow one another)", {"case_line": ln})]
        if iv[1] != 0 or sorted(map(repr, iv[2])) != sorted(map(repr, want)):
            return [("background_rotation build: a roller and its clone rolling in turn, the first rotation slow: when everything has "
                     "settled the directory is %r (rolls that returned Err: %r), the synchronous model says %r" %
                     (vc.jsonable(iv[2]), iv[1], vc.jsonable(want)), {"case_line": ln})]
    ctx.setdefault("xcheck", {})["roller_and_clone_in_turn_on_the_background_rotation_build"] = ran
    return []
