"""C06 — size trigger rolls exactly when the limit is exceeded; size accounting exact.
case format / comparison: gen/rollcommon.py (shared with C05, C17)."""
import itertools
from gen import rollcommon as rc
from gen.rollcommon import model_lines, compare, classify, describe, extra_coverage, run_impl  # noqa: F401

RULE = ("boundary sweep: limit in {0,1,2,10,1023,1024,1025} x pre-existing active file in {absent, 0, limit-1, "
        "limit, limit+1 bytes} x first build in append/truncate mode x every sequence of 1 and 2 record sizes from "
        "{0,1,2,limit-pre-1,limit-pre,limit-pre+1,limit,limit+1} (quick: 2-sequences sampled for the 1 KiB limits) "
        "x rollers cycling over delete / window(1,2) / window(0,1,.gz) / window(0,0); then random histories of 3-8 "
        "ops with restarts in both modes; 250 histories in which appends (sizes around the limit) hit a roller that is "
        "set to FAIL (Roll::roll returns Err before touching anything) followed by further appends and restarts - the "
        "reopen after a failed roll must seed len from the file; records made of a small piece followed by one "
        "encoder write of >= 1 KiB; records of multi-byte UTF-8 text split into 1-3 encoder chunks at arbitrary "
        "byte positions, sizes around the limit and around 1024. Every policy consultation reports "
        "(len_estimate, metadata().len(), rolled). In a quarter of the small-limit random histories half of the appends "
        "carry a NESTED record: the roller (or the encoder) of the call appends it to a second size-triggered rolling "
        "appender (limit 10, window 2) from inside the call; that appender must count and roll it like any record. In another "
        "quarter a third of the records are preceded by a record whose ENCODER FAILS after writing 1-8 bytes: those bytes "
        "are counted and reach the file with the next record - shown = disk at its consultation. "
        "non-trivial = size trigger with at least one append; "
        "distinct = distinct case line")
rc.MACHINE_FOR_ENC_FAIL[0] = True      # Run/C06.v runs op 11 on the machine of Model/RollingEnc.v
ASSUMPTIONS = list(rc.COMMON_ASSUMPTIONS)
RELEASE_TOO = True          # the sampled cases also run through the release-profile harness (see ./check)
EXHAUSTIVE = {"quick": False, "thorough": False}

ROLLERS = [[0], [1, 1, 2, 0], [1, 0, 1, 1], [1, 0, 0, 0]]
LIMITS = [0, 1, 2, 10, 1023, 1024, 1025]


def corpus():
    return [
        [[0, 5], [1, 1, 2, 0], [1, b"ab"], 1, [[0, [b"123"]], [0, [b"4", b"5"]], [0, [b"6"]]]],
        [[0, 0], [0], [1, b"ab"], 0, [[0, []], [0, [b"1"]]]],
        [[0, 3], [1, 0, 1, 1], [0], 1, [[0, ["€".encode()]], [0, ["é".encode()]], [1, 1], [0, [b"x"]]]],
        [[0, 3], [1, 0, 1, 0], [0], 1, [[0, [b"12"]], [7, [b"345"]], [0, [b"6"]], [0, [b"7"]]]],
        [[0, 1500], [1, 0, 1, 0], [1, b"p" * 212], 1, [[0, [b"INFO - ", b"m" * 2006, b"\n"]], [0, [b"x"]]]],
    ]


def cases(rng, tier):
    out = []
    n = 0
    for limit in LIMITS:
        pres = [None, 0] + [p for p in (limit - 1, limit, limit + 1) if p > 0]
        for pre in pres:
            pv = 0 if pre is None else pre
            sizes = sorted(set(x for x in (0, 1, 2, limit - pv - 1, limit - pv, limit - pv + 1, limit, limit + 1)
                               if 0 <= x <= 1100))
            for a0 in (1, 0):
                seqs = [[s] for s in sizes]
                two = list(itertools.product(sizes, repeat=2))
                if limit > 100 and tier == "quick":
                    two = [t for t in two if rng.chance(1, 4)]
                seqs += [list(t) for t in two]
                if tier == "thorough" and limit <= 10:
                    seqs += [list(t) for t in itertools.product(sizes, repeat=3)]
                for seq in seqs:
                    n += 1
                    prev = [0] if pre is None else [1, rc.rec_bytes(rng, "pre", pre)]
                    ops = [rc.op_append(rng, "r%d" % j, s) for j, s in enumerate(seq)]
                    out.append([[0, limit], ROLLERS[n % len(ROLLERS)], prev, a0, ops])
    # failing roller: an over-limit append whose rotation fails (Err, file kept), then further appends
    for _ in range(250 if tier == "quick" else 3000):
        limit = rng.choice([0, 1, 2, 3, 5, 10, 17, 1024])
        big = limit >= 1000
        pre_sz = rng.choice([None, 0, 1, max(0, limit - 1) % 1200, limit % 1200, (limit + 1) % 1200])
        prev = [0] if pre_sz is None else [1, rc.rec_bytes(rng, "pre", pre_sz)]
        ops = []
        for j in range(rng.range(2, 4 if big else 7)):
            k = rng.below(10)
            if k == 0:
                ops.append([1, rng.choice([1, 1, 0])])
                continue
            if big:
                sz = rng.choice([0, 1, 500, 1023, 1024, 1025])
            else:
                sz = rng.choice([0, 1, 2, max(0, limit - 1), limit, limit + 1, rng.below(12)])
            ops.append([(7 if k < 3 else 12) if k < 5 else 0, rc.chunked(rng, rc.rec_bytes(rng, "r%d" % j, sz))])
        out.append([[0, limit], rng.choice(ROLLERS + [[1, 7, 3, 0], [1, 1, 1, 1]]), prev, rng.choice([1, 1, 0]), ops])
    # one encoder write of >= 1 KiB preceded by a small piece of the same record
    for _ in range(40 if tier == "quick" else 400):
        limit = rng.choice([1023, 1024, 1025, 1500, 3000])
        ops = []
        for j in range(rng.range(1, 3)):
            body = rc.rec_bytes(rng, "b%d" % j, rng.choice([1024, 1025, 1100, 2000]))
            ops.append([0, [rc.rec_bytes(rng, "h%d" % j, rng.choice([1, 7, 30])), body] + ([b"\n"] if rng.chance(1, 2) else [])])
        out.append([[0, limit], rng.choice(ROLLERS), [0] if rng.chance(1, 2) else [1, rc.rec_bytes(rng, "pre", 200)], 1, ops])
    n_rand = 400 if tier == "quick" else 6000
    for _ in range(n_rand):
        limit = rng.choice([0, 1, 2, 3, 5, 10, 17, 1023, 1024, 1025, 2 ** 64 - 1])
        big = 1000 <= limit <= 2000
        pre_sz = rng.choice([None, 0, 1, max(0, limit - 1) % 1200, limit % 1200, (limit + 1) % 1200])
        prev = [0] if pre_sz is None else [1, rc.rec_bytes(rng, "pre", pre_sz)]
        ops = []
        nested = (not big) and limit < 100 and rng.chance(1, 4)
        enc_fail = (not nested) and rng.chance(1, 4)
        for j in range(rng.range(3, 5 if big else 8)):
            if rng.chance(1, 6):
                ops.append([1, rng.choice([1, 1, 0])])
            else:
                if big:
                    sz = rng.choice([0, 1, 7, 500, 1023, 1024, 1025, 1030])
                else:
                    lim = min(limit, 40)
                    sz = rng.choice([0, 1, 2, 3, max(0, lim - 1), lim, lim + 1, rng.below(12)])
                op = rc.op_append(rng, "r%d" % j, sz)
                if enc_fail and rng.chance(1, 3):
                    # a record whose encoder fails after writing a few bytes, then the record proper
                    # ... or (third element 1) an ordinary record whose FLUSH fails because the file cannot grow (the
                    # disk is full): the bytes stay in the writer's buffer, counted, exactly as after a failed encoder
                    ops.append([11, rc.chunked(rng, rc.rec_bytes(rng, "f%d" % j, rng.range(1, 9)))] + ([1] if rng.chance(1, 2) else []))
                if nested and rng.chance(1, 2):
                    # the roller (or the encoder) of this call appends a record to a SECOND size-triggered rolling
                    # appender from inside the call: it must be counted and rolled there like any record
                    op = [10, op[1], rc.rec_bytes(rng, "s%d" % j, rng.range(4, 9)), rng.choice([2, 2, 1])]
                ops.append(op)
        out.append([[0, limit], rng.choice(ROLLERS + [[1, 7, 3, 0], [1, 1, 1, 1]]), prev, rng.choice([1, 1, 0]), ops])
    return out


def nontrivial(c):
    return c[0][0] == 0 and any(o[0] in (0, 7, 10, 12) for o in c[4])


def extra_checks(ctx, cases_, impl_lines, model_lines_):
    """Sizes beyond 32 bits.  The theorems are about N (no bound); the correspondence above runs files of at most a
    few KiB.  Here the REAL appender opens a SPARSE pre-existing file of 2^32-1 .. 2^40 bytes (no data blocks), the
    real SizeTrigger has limit size+10, and two records of 5 and 10 bytes are appended: the length shown at each
    consultation must be the length on disk (pre-existing content included) and the trigger must fire at the second
    record, not before and not later (C06_len_is_disk_size / the rule `len > limit`)."""
    vc = ctx["vc"]
    sizes = [(1 << 32) - 1, 1 << 32, (1 << 32) + 1, (1 << 32) + 4096, (1 << 33) + 7, (1 << 40) + 3, (1 << 31) - 1, 1 << 31]
    lines = [vc.show([99, s]) for s in sizes]
    res = vc.run_lines([ctx["vh"]], lines, timeout_per_batch=300)
    ran = 0
    out = []
    for s, ln, r in zip(sizes, lines, res):
        try:
            v = vc.parse(r)
        except Exception:
            out.append(("pre-existing file of %d bytes: the appender did not survive (%s)" % (s, r[:80]),
                        {"case_line": ln, "note": "run with: echo '<case_line>' | .cache/harness/.../c06"}))
            break
        if v == []:
            continue          # the file system refuses a (sparse) file of that size
        ran += 1
        want = [[s + 5, s + 5, 0], [s + 15, s + 15, 1], 0]
        if v != want:
            out.append(("pre-existing (sparse) file of %d bytes, limit %d, records of 5 and 10 bytes: (shown, on disk, "
                        "fired) per consultation and #errors = %r, the property says %r" % (s, s + 10, v, want),
                        {"case_line": ln, "sizes": sizes}))
            break
    ctx.setdefault("xcheck", {})["huge_sparse_files_run"] = ran
    if out:
        return out
    # Many bytes WRITTEN through one handle (not only found there): 260 records of 16 MiB against a limit of 4 GiB +
    # 24 MiB (the handle's byte count passes 2^32), and one record of 2 GiB + 1 MiB after 59 pre-existing bytes and a
    # 100-byte record against a limit of 2 GiB (Linux transfers at most 0x7ffff000 bytes per write call: the record
    # takes more than one).  What was written is punched out of the file after every consultation, the length stays.
    MIB = 1 << 20
    for mode, limit, pre, recs in ((0, 4096 * MIB + 24 * MIB, 0, [16 * MIB] * 260), (1, 2048 * MIB, 59, [100, 2048 * MIB + MIB, 100])):
        ln = vc.show([98, mode])
        r = vc.run_lines([ctx["vh"]], [ln], timeout_per_batch=600)[0]
        try:
            v = vc.parse(r)
        except Exception:
            out.append(("records of %s bytes through one handle: the appender did not survive (%s)" % (sorted(set(recs)), r[:80]),
                        {"case_line": ln}))
            break
        if v == []:
            continue          # no hole punching on this file system
        want, size = [], pre
        for n in recs:
            size += n
            fired = 1 if size > limit else 0
            want.append([size, size, fired])
            if fired:
                size = 0
        want += [0, 0]
        ctx.setdefault("xcheck", {})["bytes_written_through_one_handle_mode%d" % mode] = sum(recs)
        if v != want:
            k = next((i for i, (a, b) in enumerate(zip(v, want)) if a != b), min(len(v), len(want)))
            out.append(("%d records of %s bytes written through one handle (%d pre-existing bytes, limit %d): consultation %d "
                        "(shown, on disk, fired) = %r, the property says %r; #errors, #panics = %r" %
                        (len(recs), sorted(set(recs)), pre, limit, k + 1, v[k] if k < len(v) else None,
                         want[k] if k < len(want) else None, v[-2:]),
                        {"case_line": ln}))
            break
    return out
