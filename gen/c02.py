"""C02 — level gating through the real global plumbing (init_config / Handle::set_config /
log::max_level / log::logger().enabled / log! and log_enabled! macros).
case: ( (step ...) ((target level) ...) )
      step = ( (appname ...) (rootlevel (appname ...)) ((name level additive (appname ...)) ...) tweak dropprobe )
      tweak = () | (level): config.root_mut().set_level(level) AFTER build(), before installing
      dropprobe = () | (target level): appender 0 of this config logs it via log! from its Drop
                  (= inside the next step's set_config, when the old SharedLogger is released)
result: per step ( global_max reported_max ( (logger_enabled macro_enabled (idx ...)) per probe ) drop )
One child process per case (the global logger can be installed once per process)."""
import concurrent.futures
import itertools
import subprocess

from gen.c01 import WIDE, variants

RULE = ("a case is a HISTORY: the first config is installed with init_config in a fresh process, each "
        "further one with handle.set_config; after every step log::max_level(), Logger::max_log_level(), "
        "and - on a probe grid (every logger name of every config of the history, parents, children, "
        "textual siblings, spelling variants ('-'<->'_', case, '.'<->'::', spaces), stray-colon targets, '' ; x all 5 levels) - log::logger().enabled, "
        "log_enabled!(target:..) and the appenders reached by log!(target:..) are compared with the model. "
        "Histories: every sequence of length <= 2 over a pool of 11 hand-made configs (verbose descendant "
        "under quiet root with implied intermediate, the reverse, Off everywhere, max only in a depth-3 "
        "leaf, max in a non-additive sibling without appenders, my-app vs my_app, App vs app vs a.b, ...), every length-3 sequence over 6 of them "
        "(over all 11 in thorough), then random histories of length <= 8 over random configs "
        "(<= 7 loggers, depth <= 4, components also from '-', '_', '.', digits, case pairs, space, non-ASCII;  levels biased so that the maximum is often attained only by one deep "
        "descendant; consecutive configs often differ in one level only, going up or down). "
        "About a third of the steps change the root level of the BUILT Config through root_mut().set_level "
        "(the only post-build mutator of the public API; raised above / lowered below every logger, or random) "
        "before it is installed; every non-final step whose config has an appender carries a drop probe: "
        "appender 0 logs a record through log! from its Drop, which runs inside the next set_config - the "
        "probe (chosen, when possible, at a level the new config admits and delivers but the old global max "
        "does not) must reach what the NEW configuration prescribes. "
        "non-trivial = history with >= 2 steps whose maxima differ, or a config whose most verbose level "
        "is attained only by a non-root logger; distinct = distinct case line")
ASSUMPTIONS = ["configs are built through Config::builder().build (valid: unique accepted names, appender "
               "references resolve); reconfiguration happens on the thread that logs (concurrent swaps are C15)",
               "schedule coverage inside set_config is deterministic same-thread re-entrancy only: a record logged "
               "from the Drop of a previous-config appender (released by the ArcSwap store, after the swap); no "
               "second thread is raced against set_config (C15)",
               "the children run under RUST_LOG in {unset, error, warn, off, trace, info,foo=debug, debug} and log's global "
               "maximum is overwritten (Off / Trace alternating) right before every set_config: neither may matter",
               "log::STATIC_MAX_LEVEL is Trace (no max_level_* feature of `log` enabled in the harness build)",
               "delivery order among the appenders of one record is canonicalised (multiset comparison)",
               "the `log` crate's macros and set_max_level/max_level are exercised, not verified "
               "(modelled in Model/Facade.v from log 0.4.34 src/macros.rs)"]
TRUSTED = ["`log` 0.4.34 facade (macros, global max level, set_boxed_logger) modelled in coq/Model/Facade.v"]
RELEASE_TOO = True          # the cases also run through the release-profile harness (see ./check)
EXHAUSTIVE = {"quick": False, "thorough": False}

A = ["A", "B"]
# hand-made pool
POOL = {
    "off_plain": [A, [0, ["A"]], []],
    "quiet_root_verbose_grandchild": [A, [1, ["A"]], [["a::b", 5, 1, ["B"]], ["c", 0, 0, []]]],
    "verbose_root_quiet_child": [A, [5, ["A"]], [["a", 0, 1, ["B"]], ["a::b", 1, 1, []]]],
    "off_everywhere": [A, [0, ["A"]], [["a", 0, 1, ["B"]], ["a::b::c", 0, 0, ["A"]]]],
    "max_in_depth3_leaf": [A, [2, ["A"]], [["a", 3, 1, ["B"]], ["a::b::c", 4, 1, ["B"]], ["b", 1, 0, []]]],
    "max_in_mute_sibling": [A, [3, ["A"]], [["b", 5, 0, []], ["a", 2, 1, ["A"]]]],
    "root_is_max": [A, [4, ["A", "B"]], [["a", 2, 1, []], ["a::b", 3, 0, ["B"]], ["x::y::z", 1, 1, []]]],
    "all_trace": [A, [5, ["A"]], [["a", 5, 1, ["B"]], ["a::b", 5, 1, ["A"]]]],
    "dash_vs_underscore": [A, [1, ["A"]], [["my-app", 5, 1, ["B"]], ["my_app::db", 3, 0, ["B"]], ["my_app", 0, 1, []]]],
    "case_and_dot": [A, [0, ["A"]], [["App", 4, 1, ["B"]], ["app", 2, 1, []], ["a.b", 5, 0, ["A"]], ["x y::ñ", 3, 1, ["B"]]]],
    "error_only_child_first": [A, [0, []], [["a::b::c::d", 1, 1, ["A"]], ["a::b", 0, 1, ["B"]]]],
}
POOL_NAMES = list(POOL)
STRAY = ["", ":", "::", "a:", "a:::b", "::a", "a::", "x", "a::bx", "ab"]


def probes_for(cfgs, extra=()):
    ts = []
    for cfg in cfgs:
        for lg in cfg[2]:
            n = lg[0]
            comps = n.split("::")
            ts += [n, n + "::x", n + "x", n + ":"]
            ts += variants(n)
            if len(comps) > 1:
                ts.append("::".join(comps[:-1]))
    ts += STRAY
    ts += list(extra)
    seen, out = set(), []
    for t in ts:
        if t not in seen:
            seen.add(t)
            out.append(t)
    return [[t, L] for t in out for L in range(1, 6)]


def eff_cfg(step):
    """the configuration a step installs: root level replaced by the post-build tweak"""
    root = step[1]
    if len(step) > 3 and step[3]:
        root = [step[3][0], root[1]]
    return [step[0], root, step[2]]


def route(cfg, target):
    """(threshold, chain of appender names) the configuration prescribes for a target"""
    comps = target.split("::")
    by = {tuple(l[0].split("::")): l for l in cfg[2]}

    def at(k):
        while k > 0 and tuple(comps[:k]) not in by:
            k -= 1
        if k == 0:
            return cfg[1][0], list(cfg[1][1])
        lg = by[tuple(comps[:k])]
        return lg[1], list(lg[3]) + (at(k - 1)[1] if lg[2] else [])
    return at(len(comps))


def _spec_max(cfg):
    return max([cfg[1][0]] + [l[1] for l in cfg[2]])


def pick_drop(rng, old, new):
    """a (target, level) for the drop probe of `old`'s appender 0, fired while `new` is installed"""
    if not old[0]:
        return []
    om = _spec_max(old)
    ts = [l[0] for l in new[2]] + [l[0] + "::x" for l in new[2]] + ["", "x", "a", "a::b"]
    good = []
    for t in ts:
        lvl, chain = route(new, t)
        for L in range(om + 1, lvl + 1):
            if 1 <= L <= 5 and chain:
                good.append([t, L])
    if good and rng.chance(5, 6):
        return rng.choice(good)
    return [rng.choice(ts), rng.range(1, 5)]


def mk(cfgs, extra=(), rng=None, tweaks=None):
    """cfgs: plain configs; tweaks: per step None or a level"""
    steps = []
    for k, c in enumerate(cfgs):
        tw = [] if not tweaks or tweaks[k] is None else [tweaks[k]]
        steps.append([c[0], c[1], c[2], tw, []])
    effs = [eff_cfg(s) for s in steps]
    if rng is not None:
        for k in range(len(steps) - 1):
            steps[k][4] = pick_drop(rng, effs[k], effs[k + 1])
    return [steps, probes_for(cfgs, extra)]


def rand_tweaks(rng, cfgs):
    out = []
    for c in cfgs:
        r = rng.below(9)
        hi = max([l[1] for l in c[2]] + [0])
        if r == 0:
            out.append(min(5, hi + 1))          # root raised above every logger
        elif r == 1:
            out.append(rng.below(max(1, min([l[1] for l in c[2]] + [c[1][0]]) + 1)))   # lowered
        elif r == 2:
            out.append(rng.below(6))
        else:
            out.append(None)
    return out


def rand_cfg(rng):
    alpha = ["a", "b", "ab", "c"] + (["é", "日本"] if rng.chance(1, 5) else [])
    if rng.chance(1, 2):
        w = rng.choice(WIDE)
        alpha += [w, rng.choice([v for v in variants(w) if v and ":" not in v] or WIDE), rng.choice(WIDE)]
    anames = rng.shuffle(["A0", "x", "日", "a::b"])[:rng.range(0, 3)]
    names = []
    tries = 0
    nl = rng.range(0, 7)
    while len(names) < nl and tries < 60:
        tries += 1
        if names and rng.chance(2, 3):
            base = rng.choice(names).split("::")
            comps = base + [rng.choice(alpha) for _ in range(rng.range(1, 2))]
        else:
            comps = [rng.choice(alpha) for _ in range(rng.range(1, 2))]
            if rng.chance(1, 12):
                comps = [""] + comps
        comps = comps[:4]
        n = "::".join(comps)
        if n and n not in names:
            names.append(n)
    names = rng.shuffle(names)
    # level profile: quiet base, one (often deep) logger carries the maximum
    base = rng.below(4)
    root_level = rng.choice([base, rng.below(6)])
    lv = {n: rng.choice([base, rng.below(base + 1), rng.below(6)]) for n in names}
    if names and rng.chance(2, 3):
        deep = max(names, key=lambda s: (len(s.split("::")), s)) if rng.chance(1, 2) else rng.choice(names)
        lv[deep] = rng.range(base + 1, 5) if base < 5 else 5
    att = lambda k: [rng.choice(anames) for _ in range(rng.below(k + 1))] if anames else []
    loggers = [[n, lv[n], 0 if rng.chance(1, 3) else 1, att(2)] for n in names]
    return [anames, [root_level, att(2)], loggers]


def tweak(rng, cfg):
    """a neighbour config: one level changed (up or down), or a logger dropped/added flag flipped"""
    apps, root, loggers = cfg
    root = [root[0], list(root[1])]
    loggers = [[l[0], l[1], l[2], list(l[3])] for l in loggers]
    k = rng.below(4)
    if k == 0 or not loggers:
        root[0] = rng.below(6)
    elif k == 1:
        rng.choice(loggers)[1] = rng.below(6)
    elif k == 2:
        loggers.pop(rng.below(len(loggers)))
    else:
        lg = rng.choice(loggers)
        lg[2] = 1 - lg[2]
        lg[1] = rng.below(6)
    return [list(apps), root, rng.shuffle(loggers)]


def cases(rng, tier):
    out = []
    P = [POOL[n] for n in POOL_NAMES]
    for c in P:
        out.append(mk([c]))
        out.append(mk([c], tweaks=[rng.below(6)]))
    for a, b in itertools.product(P, repeat=2):
        out.append(mk([a, b], rng=rng))
        # same pair, the second (and sometimes the first) config modified after build()
        out.append(mk([a, b], rng=rng, tweaks=[None if rng.chance(2, 3) else rng.below(6),
                                                rng.choice([5, 0, rng.below(6)])]))
    triples = list(itertools.product(P[:6] if tier == "quick" else P, repeat=3))
    for t in triples:
        out.append(mk(list(t), rng=rng, tweaks=rand_tweaks(rng, t) if rng.chance(1, 3) else None))
    n_rand = 160 if tier == "quick" else 2500
    for _ in range(n_rand):
        n = rng.range(1, 8)
        cfgs = [rand_cfg(rng)]
        while len(cfgs) < n:
            r = rng.below(4)
            if r == 0:
                cfgs.append(rand_cfg(rng))
            elif r == 1:
                cfgs.append(rng.choice(P))
            else:
                cfgs.append(tweak(rng, cfgs[-1]))
        extra = []
        for _k in range(3):
            comps = [rng.choice(["a", "b", "ab", "c", "", ":", "x"]) for _ in range(rng.range(1, 4))]
            extra.append(rng.choice(["::", "::", ":", ":::"]).join(comps))
        out.append(mk(cfgs, extra, rng=rng, tweaks=rand_tweaks(rng, cfgs)))
    return out


def nontrivial(c):
    cfgs = [eff_cfg(x) for x in c[0]]
    ms = [_spec_max(x) for x in cfgs]
    if len(set(ms)) >= 2:
        return True
    return any(_spec_max(x) > x[1][0] for x in cfgs)


def classify(c):
    ms = [_spec_max(eff_cfg(x)) for x in c[0]]
    ups = sum(1 for a, b in zip(ms, ms[1:]) if b > a)
    downs = sum(1 for a, b in zip(ms, ms[1:]) if b < a)
    tw = sum(1 for x in c[0] if len(x) > 3 and x[3])
    return "steps=%d up=%d down=%d tweaked=%d" % (len(c[0]), min(ups, 3), min(downs, 3), min(tw, 2))


def describe(c):
    def d(cfg):
        return {"appenders": cfg[0], "root": {"level": cfg[1][0], "appenders": cfg[1][1]},
                "loggers": [{"name": l[0], "level": l[1], "additive": bool(l[2]), "appenders": l[3]} for l in cfg[2]],
                "root_level_set_after_build": (cfg[3][0] if len(cfg) > 3 and cfg[3] else None),
                "drop_probe": (cfg[4] if len(cfg) > 4 and cfg[4] else None)}
    return {"history": [d(x) for x in c[0]], "probes": len(c[1])}


def compare(c, impl, model):
    n = len(c[0])
    if not isinstance(impl, list) or not isinstance(model, list) or len(impl) != n or len(model) != n:
        return "result shape differs: impl=%r model=%r" % (str(impl)[:120], str(model)[:120])
    for k, (a, b) in enumerate(zip(impl, model)):
        what = "after step %d (%s)" % (k, "init_config" if k == 0 else "set_config")
        if not (isinstance(a, list) and isinstance(b, list) and len(a) == 4 and len(b) == 4):
            if a != b:
                return "%s: impl=%r model=%r" % (what, str(a)[:120], str(b)[:120])
            continue
        if a[0] != b[0]:
            return "%s: log::max_level() = %r, most verbose configured level = %r" % (what, a[0], b[0])
        if a[1] != b[1]:
            return "%s: Logger::max_log_level() = %r, most verbose configured level = %r" % (what, a[1], b[1])
        if len(a[2]) != len(b[2]) or len(a[2]) != len(c[1]):
            return "%s: probe grid shape differs" % what
        for (t, L), x, y in zip(c[1], a[2], b[2]):
            if x[0] != y[0]:
                return "%s target %r level %d: logger().enabled = %r, threshold test = %r" % (what, t, L, x[0], y[0])
            if x[1] != y[1]:
                return "%s target %r level %d: log_enabled! = %r, threshold test = %r" % (what, t, L, x[1], y[1])
            if sorted(x[2]) != sorted(y[2]):
                return "%s target %r level %d: log! reached appenders %r, routing prescribes %r" % (what, t, L, x[2], y[2])
        da = [sorted(x) for x in a[3]] if isinstance(a[3], list) else a[3]
        db = [sorted(x) for x in b[3]] if isinstance(b[3], list) else b[3]
        if da != db:
            return ("%s: record %r logged via log! from the Drop of a previous-config appender (inside set_config) "
                    "reached %r, the new configuration prescribes %r" % (what, c[0][k - 1][4] if k else None, a[3], b[3]))
    return None


def _one(args):
    exe, line, env = args
    try:
        p = subprocess.run([exe, "--one"], input=(line + "\n").encode(), stdout=subprocess.PIPE,
                           stderr=subprocess.DEVNULL, timeout=60, env=env)
    except subprocess.TimeoutExpired:
        return "xhang"
    out = p.stdout.decode("utf-8", "replace").split("\n")
    return out[0] if out and out[0] else "xabort"


RUST_LOG = [None, "error", "warn", "off", "trace", "info,foo=debug", "debug"]


def run_impl(ctx, cases_, lines):
    """one child per history; the children run under different RUST_LOG values (log4rs does not read it: the
    configuration alone decides) and the harness overwrites log's global maximum with Off / Trace right before
    every set_config (a foreign write: set_config must install the new configuration's maximum regardless)"""
    vc = ctx["vc"]
    jobs = []
    for i, l in enumerate(lines):
        env = dict(vc.ENV)
        env.pop("RUST_LOG", None)
        v = RUST_LOG[i % len(RUST_LOG)]
        if v is not None:
            env["RUST_LOG"] = v
        jobs.append((ctx["vh"], l, env))
    with concurrent.futures.ThreadPoolExecutor(max_workers=12) as ex:
        return list(ex.map(_one, jobs))


def extra_checks(ctx, cases_, impl_lines, model_lines_):
    """the levels that gate are the levels the configuration DOCUMENT declares when the logger is set up from a file
    (regular file, symbolic link, named pipe): C14's renderings, whose probes cover every level per target"""
    from gen import xcheck
    return xcheck.borrow(ctx, "C14", "levels declared in a configuration document gate as declared",
                         lambda c: c[5] == "render", n=100, seed_salt=29)
