"""C09 — pattern encoder output equals the pattern's meaning (well-formed patterns).
Case format and run protocol: gen/patcommon.py."""
from gen import patcommon as pc
from gen.patcommon import cp, lit, esc, spec, fmt, NOSPEC

RULE = ("patterns are PRINTED from ASTs of the documented grammar (the model re-prints the AST and refuses a "
        "case whose text differs): (a) every alias of every formatter x {no spec, ':', ':>12', ':.3', ':~<9.9'} "
        "x {full record, record without module/file/line} x 5 levels for the groups; the group sweep, one "
        "spec of every leaf alias, nested debug/release/highlight/plain groups and 400 random ASTs also through "
        "the RELEASE build of the harness (quick tier too); 12 cases of the program shape 'parent encodes the "
        "pid/thread formatters, forks, the child encodes' (the child reports its own pid / thread id); (b) every special character "
        "in both escape styles directly before / after / inside the argument of a formatter; (c) date formats "
        "over 15 run-stable and 17 clock-dependent strftime directives with 0/1/2 arguments, zone utc|local, "
        "under TZ=UTC and TZ=Asia/Tokyo; (d) MDC with present / absent keys, with and without default, keys and "
        "defaults that are one literal or one escape (positive class) or several pieces (finding class); "
        "(e) 8000 (quick) / 40000 (thorough) random ASTs: depth <= 4, sequences <= 4 nodes, literals over ASCII + 8 non-ASCII characters "
        "(2/3/4-byte, combining, Arabic-Indic digit, Roman numeral), 17 fill characters incl. the syntax "
        "characters, widths <= 40 written with leading zeros, min <= max; records: every level, 12 messages, "
        "targets, absent/present module, file, line (incl. 0 and u32::MAX), MDC maps of <= 3 entries, named / "
        "unnamed threads; (f) 36 (thorough 180) local/utc date patterns rendered while the harness PROCESS's time zone "
        "changes between records (TZ switched among JST-9, EST5, Asia/Kolkata, UTC0, America/St_Johns): a local date "
        "must follow the zone of the moment it is rendered; (g) 44 (thorough 232) patterns containing {m} encoded while the "
        "message argument's own Display impl encodes another record through a {m} pattern on the same thread "
        "(re-entrant encode: both outputs must be what they are without the nesting); (h) 24 (96) aligned patterns "
        "encoded after three records whose message FAILED half-way inside aligned fields on the same thread. thorough: debug AND release harness builds. "
        "non-trivial = the pattern contains a formatter and the AST is well-formed for the positive theorem; "
        "distinct = distinct case line")
ASSUMPTIONS = [
    "the clock, pid, thread ids, thread name and char::is_alphabetic/is_alphanumeric are observed from the harness process and handed to the model as oracle values",
    "chrono renders the model's date oracle: a rendering is compared exactly when it did not change between the probes before and after the encode call, otherwise digit positions are compared as 'some digit'",
    "explicit widths <= 64 in the correspondence run (theorems hold for all widths)",
    "the capture sink accepts every write (short writes are C10's subject)",
    "quick tier: the debug build profile for all cases plus the release profile for the group / nesting families, a leaf-alias sample and 400 random ASTs; thorough runs every case family in both profiles",
]
TRUSTED = ["chrono's strftime validity check and rendering (oracle `strftime_ok` / `time_str` of Model/Pattern.v)",
           "C10's refinement of the byte-level width writers to the character-level law `apply_params`"]
RELEASE_TOO = True          # the cases also run through the release-profile harness (see ./check)
EXHAUSTIVE = {"quick": False, "thorough": False}


def prepare(ctx):
    # the property is profile-dependent ({D(..)} / {R(..)}; nothing may be dropped in
    # either profile): the release build of the harness is used in the quick tier too
    pc.prepare(ctx, "c09", release_in_quick=True)


run_impl = pc.run_impl
model_lines = pc.model_lines
describe = pc.describe


# ---------------------------------------------------------------- AST generation

def g_lit(rng):
    n = rng.choice([1, 1, 2, 3, 5])
    return lit("".join(rng.choice(pc.LIT_CHARS) for _ in range(n)))


def g_esc(rng, inarg):
    c = rng.choice(pc.SPECIALS)
    st = rng.below(2)
    if inarg and c == ")":
        st = 1
    return esc(c, st)


def g_digits(rng, lo, hi):
    v = rng.range(lo, hi)
    s = str(v)
    if rng.chance(1, 6):
        s = "0" * rng.range(1, 3) + s
    return s, v


def g_spec(rng):
    k = rng.below(10)
    if k < 3:
        return NOSPEC
    if k == 3:
        return spec(colon=1)
    fa = None
    if rng.chance(1, 2):
        fa = (rng.choice(pc.FILLS) if rng.chance(2, 3) else None, rng.below(2))
    mn = mx = None
    lo = 0
    if rng.chance(2, 3):
        mn, lo = g_digits(rng, 0, rng.choice([3, 8, 12, 40]))
    if rng.chance(1, 2):
        mx, _ = g_digits(rng, lo, max(lo, rng.choice([0, 2, 5, 9, 40])))
    return spec(colon=1, fa=fa, mn=mn, mx=mx)


def g_datefmt(rng, unstable_ok=True):
    """a plain argument (literals and escapes) spelling a strftime format"""
    seq = []
    for _ in range(rng.below(4)):
        k = rng.below(6)
        if k <= 2:
            pool = pc.STABLE_DIR if (not unstable_ok or rng.chance(3, 4)) else pc.UNSTABLE_DIR
            t = rng.choice(pool)
        elif k == 3:
            t = rng.choice(["-", " ", "T", ":", "é", "at ", "/"])
        elif k == 4:
            seq.append(g_esc(rng, True))
            continue
        else:
            t = rng.choice(pc.STABLE_DIR) + rng.choice(["", "-", " "]) + rng.choice(pc.STABLE_DIR)
        if seq and seq[-1][0] == 0:
            seq[-1] = lit(pc.uncp(seq[-1][1]) + t)
        else:
            seq.append(lit(t))
    return seq


def g_single(rng, pool):
    """one-piece argument: a literal or one escape"""
    if rng.chance(1, 5):
        return [g_esc(rng, True)]
    return [lit(rng.choice(pool))]


def g_multi(rng):
    """several literal pieces (MDC finding class)"""
    seq = [lit(rng.choice(["a", "k", "d"])), g_esc(rng, True)]
    if rng.chance(1, 2):
        seq.append(lit(rng.choice(["b", "x"])))
    if rng.chance(1, 4):
        seq = seq[1:]
        if len(seq) < 2:
            seq.append(g_esc(rng, True))
    return seq


def g_fmt(rng, depth, mdc_class_ok):
    k = rng.below(20)
    sp = g_spec(rng)
    if k < 9 or depth <= 0:
        a = rng.choice(pc.LEAVES)
        return fmt(rng.choice(a), (), sp)
    if k < 14:
        a = rng.choice(pc.GROUPS)
        return fmt(rng.choice(a), [g_seq(rng, depth - 1, True, mdc_class_ok)], sp)
    if k < 17:
        nm = rng.choice(pc.DATE)
        na = rng.below(3)
        args = []
        if na >= 1:
            args.append(g_datefmt(rng))
        if na == 2:
            args.append([lit(rng.choice(["utc", "local"]))])
        return fmt(nm, args, sp)
    nm = rng.choice(pc.MDC)
    nonempty = [x for x in pc.MDC_KEYS + ["k:1", "a.b<c"] if x and not any(ch in pc.SPECIALS for ch in x)]
    if mdc_class_ok and rng.chance(1, 6):
        args = [g_multi(rng)] if rng.chance(1, 2) else [g_single(rng, nonempty), g_multi(rng)]
    else:
        args = [g_single(rng, nonempty)]
        if rng.chance(1, 2):
            args.append(g_single(rng, ["dflt", "d", "-", "déf", "n/a"]))
    return fmt(nm, args, sp)


def g_seq(rng, depth, inarg, mdc_class_ok=True, lookahead_ok=False):
    n = rng.choice([0, 1, 1, 2, 2, 3, 3, 4]) if inarg else rng.choice([1, 2, 3, 3, 4, 4])
    seq = []
    for _ in range(n):
        k = rng.below(10)
        if k < 2 and not (seq and seq[-1][0] == 0):
            node = g_lit(rng)
            # outside the look-ahead finding class unless asked for
            if (not lookahead_ok and seq and seq[-1][0] == 2 and pc.print_spec(seq[-1][3]) == ":"
                    and node[1][0] in (60, 62)):
                node = lit("a" + pc.uncp(node[1]))
        elif k < 4:
            node = g_esc(rng, inarg)
        else:
            node = g_fmt(rng, depth, mdc_class_ok)
        seq.append(node)
    return seq


def mdc_keys_of(seq):
    keys = []
    for n in pc.walk(seq):
        if n[0] == 2 and pc.uncp(n[1]) in pc.MDC and n[2]:
            k = "".join(pc.uncp(x[1]) if x[0] == 0 else chr(x[1]) if x[0] == 1 else "" for x in n[2][0])
            keys.append(k)
            first = n[2][0][0] if n[2][0] else None
            if first is not None and first[0] != 2:
                keys.append(pc.uncp(first[1]) if first[0] == 0 else chr(first[1]))
    return keys


def mk(rng, tier, seq, rec=None, mdc=None, thread=None, envsel=None):
    if mdc is None:
        ks = mdc_keys_of(seq)
        want = [k for k in ks if rng.chance(2, 3)]
        mdc = pc.rand_mdc(rng, want)
    return [1, cp(pc.print_seq(seq)), rec if rec is not None else pc.rand_record(rng), mdc,
            thread if thread is not None else pc.rand_thread(rng), [seq],
            envsel if envsel is not None else pc.rand_envsel(rng, tier)]


SPECS5 = [NOSPEC, spec(colon=1), spec(1, (None, 1), "12"), spec(1, None, None, "3"), spec(1, ("~", 0), "9", "9")]


def cases(rng, tier):
    out = []
    envs = [[0, 0], [1, 0]] + ([[0, 1], [1, 1]] if tier == "thorough" else [])
    # (a) every alias
    for ei, env in enumerate(envs):
        for rec in (pc.FULL_REC, pc.BARE_REC):
            for sp in SPECS5:
                for a in pc.LEAVES:
                    for nm in a:
                        out.append(mk(rng, tier, [lit("["), fmt(nm, (), sp), lit("]")], rec, [], [cp("thr")], env))
                for nm in pc.DATE:
                    out.append(mk(rng, tier, [fmt(nm, (), sp)], rec, [], [], env))
                    out.append(mk(rng, tier, [fmt(nm, [[lit("%Y-%Z")]], sp), lit("|")], rec, [], [], env))
                    for z in ("utc", "local"):
                        out.append(mk(rng, tier, [fmt(nm, [[lit("%Y %z")], [lit(z)]], sp)], rec, [], [], env))
                for nm in pc.MDC:
                    for m in ([], [[cp("k"), cp("välue")]]):
                        out.append(mk(rng, tier, [fmt(nm, [[lit("k")]], sp)], rec, m, [], env))
                        out.append(mk(rng, tier, [fmt(nm, [[lit("k")], [lit("dflt")]], sp)], rec, m, [], env))
            for sp in SPECS5:
                for a in pc.GROUPS:
                    for nm in set(a):
                        for lvl in range(1, 6):
                            r = [lvl] + rec[1:]
                            out.append(mk(rng, tier, [lit("<"), fmt(nm, [[fmt("l"), lit(" "), fmt("m", (), spec(1, (None, 1), "7"))]], sp),
                                                     lit(">")], r, [], [], env))
    # (a') release build profile (quick tier too): every group kind with and without specs,
    # nested groups, one spelling of every other formatter, random ASTs
    if tier == "quick":
        rel = [0, 1]
        for rec in (pc.FULL_REC, pc.BARE_REC):
            for sp in SPECS5:
                for a in pc.GROUPS:
                    for nm in set(a):
                        for lvl in range(1, 6):
                            r = [lvl] + rec[1:]
                            out.append(mk(rng, tier, [lit("["), fmt(nm, [[fmt("l"), lit(" "), fmt("m", (), spec(1, (None, 1), "7"))]], sp),
                                                     lit("]")], r, [], [], rel))
            for a in pc.LEAVES:
                for nm in a:
                    out.append(mk(rng, tier, [lit("["), fmt(nm, (), SPECS5[4]), lit("]")], rec, [], [cp("thr")], rel))
            out.append(mk(rng, tier, [fmt("d", [[lit("%Y %z")], [lit("utc")]]), fmt("date"), fmt("X", [[lit("k")], [lit("dflt")]])],
                          rec, [], [], rel))
        for env in ([0, 0], [0, 1]):
            out.append(mk(rng, tier, [fmt("", [[fmt("D", [[fmt("R", [[lit("r")]]), lit("d")]]), fmt("h", [[fmt("", [[lit("y"), fmt("l")]])]])]]),
                                     fmt("R", [[fmt("", [[fmt("D", [[lit("x")]]), lit("z")]], spec(1, ("*", 1), "6"))]]),
                                     fmt("debug", [[fmt("", [[fmt("m")]], spec(1, None, None, "3"))]])], envsel=env))
            out.append(mk(rng, tier, [fmt("", [[]]), fmt("D", [[]]), fmt("R", [[]]), fmt("h", [[]]), lit("|"),
                                     fmt("", [[fmt("", [[fmt("", [[fmt("t")]])]])]], spec(1, ("-", 1), "9"))], envsel=env))
        for i in range(400):
            out.append(mk(rng, tier, g_seq(rng, rng.choice([2, 3, 4]), False), envsel=[rng.below(2), 1]))
    # (a'') program shape "encode, fork, encode in the child": pid / thread formatters must show
    # the values of the process that encodes the record
    for prof in (0, 1):
        for seq in ([fmt("P"), lit(" "), fmt("pid"), lit(" "), fmt("I"), lit(" "), fmt("i")],
                    [fmt("pid", (), spec(1, (None, 1), "12")), lit("|"), fmt("thread_id"), lit("|"), fmt("tid")],
                    [fmt("h", [[fmt("P")]]), lit(" "), fmt("T"), lit(" "), fmt("m")],
                    [lit("["), fmt("", [[fmt("P"), lit("/"), fmt("I")]], spec(1, ("0", 1), "24")), lit("] "), fmt("l")],
                    [fmt("D", [[fmt("pid")]]), fmt("R", [[fmt("P")]]), lit(" "), fmt("t")],
                    [fmt("P", (), spec(1, None, None, "2")), fmt("pid", (), spec(1, ("x", 0), "9", "9"))]):
            c = mk(rng, tier, seq, envsel=[rng.below(2), prof])
            c[0] = 4
            out.append(c)
    # (b) escapes adjacent to formatters
    for c in pc.SPECIALS:
        for st in (0, 1):
            for nm in ("m", "", "h"):
                inner = [fmt("l")] if nm in ("", "h") else None
                f = fmt(nm, [inner] if inner else (), NOSPEC)
                out.append(mk(rng, tier, [esc(c, st), f]))
                out.append(mk(rng, tier, [f, esc(c, st)]))
                out.append(mk(rng, tier, [esc(c, st), f, esc(c, st), esc(c, 1 - st), f]))
                if not (c == ")" and st == 0):
                    out.append(mk(rng, tier, [fmt("", [[esc(c, st), fmt("m"), esc(c, st)]], spec(1, ("*", 1), "10"))]))
                    out.append(mk(rng, tier, [fmt("X", [[esc(c, st)]])], mdc=[[cp(c), cp("val")]]))
                    out.append(mk(rng, tier, [fmt("X", [[lit("nokey")], [esc(c, st)]])], mdc=[]))
                    out.append(mk(rng, tier, [fmt("d", [[lit("%Y"), esc(c, st), lit("%Z")]])]))
    # (c) date formats
    for d in pc.STABLE_DIR + pc.UNSTABLE_DIR:
        for env in envs:
            out.append(mk(rng, tier, [fmt("d", [[lit(d)]]), lit(" "), fmt("date", [[lit("x" + d)], [lit("utc")]], spec(1, (None, 1), "40"))],
                          envsel=env))
    # a date under a MAX width (and a min width) around the length of its UTC rendering: what is cut / padded is
    # the rendering in the zone of the record, whatever a rendering made at construction time looked like
    for d in ("%Z", "%z", "%:z", "%Z%Z", "%Y%Z"):
        for k in ("1", "2", "3", "4", "5", "6", "8"):
            for env in envs:
                out.append(mk(rng, tier, [lit("<"), fmt("d", [[lit(d)]], spec(1, None, None, k)), lit("|"),
                                         fmt("date", [[lit(d)], [lit("local")]], spec(1, ("*", 1), k, "9")), lit(">")],
                              envsel=env))
    # date formats with literal NON-ASCII text under widths around their character (not byte) count, both alignments
    for d in ("%Y\u5e74%m\u6708%d\u65e5", "\u5e74\u6708\u65e5", "\u00e9%H", "%Y \U0001f600", "\u20ac%j"):
        for k in ("3", "5", "9", "11", "12", "14", "20"):
            for al in (0, 1):
                for env in envs[:2]:
                    out.append(mk(rng, tier, [lit("["), fmt("d", [[lit(d)], [lit("utc")]], spec(1, (None, al), k)), lit("|"),
                                             fmt("date", [[lit(d)]], spec(1, ("*", al), k, "16")), lit("]")], envsel=env))
    # every group kind around ONE child that carries its own spec (max only / min only / both), the group
    # with a wider min, a narrower max, both: the two specs apply one after the other, inner first
    for gname in ("h", "highlight", "", "D", "R"):
        for inner in (spec(1, None, None, "3"), spec(1, (None, 1), "5"), spec(1, ("~", 0), "2", "4")):
            for outer in (spec(1, None, "6"), spec(1, ("*", 1), "7"), spec(1, None, None, "2"), spec(1, ("0", 0), "6", "8")):
                for child in ("m", "l", "t"):
                    for env in envs:
                        out.append(mk(rng, tier, [lit("["), fmt(gname, [[fmt(child, (), inner)]], outer), lit("]")],
                                      envsel=env))
    out.append(mk(rng, tier, [fmt("d", [[]])]))
    out.append(mk(rng, tier, [fmt("d", [[], [lit("utc")]]), lit("!")]))
    # (d) MDC finding class and look-ahead finding class, explicitly
    out.append(mk(rng, tier, [fmt("X", [[lit("a"), esc("{", 0), lit("b")]])], mdc=[[cp("a"), cp("WRONG")], [cp("a{b"), cp("right")]]))
    out.append(mk(rng, tier, [fmt("X", [[lit("zz")], [lit("d"), esc("{", 0), lit("e")]])], mdc=[]))
    out.append(mk(rng, tier, [fmt("m", (), spec(colon=1)), lit("<")]))
    out.append(mk(rng, tier, [fmt("m", (), spec(colon=1)), lit(">x"), fmt("l")]))
    out.append(mk(rng, tier, [fmt("", [[fmt("m", (), spec(colon=1)), lit("<y")]]), lit("tail")]))
    # (e) random ASTs
    n_rand = 8000 if tier == "quick" else 40000
    for i in range(n_rand):
        depth = rng.choice([1, 2, 2, 3, 4])
        seq = g_seq(rng, depth, False, mdc_class_ok=True, lookahead_ok=(i % 40 == 0))
        out.append(mk(rng, tier, seq))
    # (g) re-entrant encode: the message's Display impl encodes another record through {m} while the
    # outer record is being encoded (mode 6; the model sees mode 1)
    for env in envs:
        for seq in ([fmt("m")], [lit("["), fmt("m", (), spec(1, (None, 1), "12")), lit("]")],
                    [fmt("", [[fmt("m"), lit(" "), fmt("l")]], spec(1, None, None, "7"))],
                    [fmt("h", [[fmt("m")]]), lit(" "), fmt("message", (), spec(1, ("*", 0), "9", "9"))],
                    [fmt("l"), lit(" "), fmt("t"), lit(" - "), fmt("m"), fmt("n")],
                    # an aligned GROUP that already holds text when the message (and with it the nested encode) starts
                    [fmt("", [[fmt("l"), lit(" "), fmt("m")]], spec(1, (None, 1), "24"))],
                    [fmt("", [[fmt("l"), lit(" "), fmt("m")]], spec(1, ("*", 0), "24"))],
                    [fmt("", [[fmt("t"), lit(":"), fmt("", [[fmt("l"), fmt("m")]], spec(1, ("~", 1), "12"))]], spec(1, (None, 1), "30", "28"))],
                    [fmt("", [[fmt("", [[fmt("m")]], spec(1, ("~", 1), "6"))]], spec(1, None, None, "4"))]):
            for k in range(2 if tier == "quick" else 8):
                c = mk(rng, tier, seq, envsel=env)
                c[0] = 6
                out.append(c)
        for k in range(10 if tier == "quick" else 100):
            seq = g_seq(rng, rng.choice([1, 2, 3]), False) + [fmt("m")]
            c = mk(rng, tier, seq, envsel=env)
            c[0] = 6
            out.append(c)
    # (h) after records whose message failed half-way inside right- / left-aligned, truncated and highlighted fields
    # on the same thread (mode 9), every kind of aligned field renders its own record only
    for env in envs:
        for seq in ([lit("["), fmt("m", (), spec(1, (None, 1), "9")), lit("]")],
                    [fmt("", [[fmt("l"), lit(" "), fmt("m")]], spec(1, ("*", 1), "14", "20"))],
                    [fmt("h", [[fmt("m", (), spec(1, ("~", 1), "6"))]]), lit("|"), fmt("t", (), spec(1, (None, 1), "8"))],
                    [fmt("m", (), spec(1, (None, 0), "7")), lit("|"), fmt("l", (), spec(1, ("0", 1), "7", "7"))]):
            for k in range(3 if tier == "quick" else 12):
                c = mk(rng, tier, seq, envsel=env)
                c[0] = 9
                out.append(c)
    out.extend(tz_switch_cases(rng, tier, envs))
    return out


def tz_switch_cases(rng, tier, envs):
    """(f) the process's time zone changes while it runs (mode 5 switches TZ, the following cases of the same
    process keep the new zone; every third switch is to a zone whose daylight-saving time ends within the hour, so
    that the local time of the record is in the REPEATED hour): local dates must follow the zone of the moment"""
    out = []
    for env in envs:
        for k in range(6 if tier == "quick" else 30):
            for mode in (5, 1, 1):
                d = rng.choice(["%Y-%m-%d %H:%M %z", "%z", "%:z %H", "%H:%M", "%+", "%c", "%Z %R"])
                seq = [fmt("d", [[lit(d)]]), lit(" "), fmt("date", [[lit(d)], [lit("local")]]), lit(" "),
                       fmt("d", [[lit(d)], [lit("utc")]]), lit(" "), fmt("d")]
                c = mk(rng, tier, seq, envsel=env)
                c[0] = mode
                out.append(c)
    return out


# ---------------------------------------------------------------- verdicts

def _parts(impl, model):
    ires = impl[3] if isinstance(impl, list) and len(impl) == 4 else impl
    mres, flags, meaning = model
    return ires, mres, flags, meaning


def compare(case, impl, model):
    ires, mres, flags, meaning = _parts(impl, model)
    if not pc.ev_match(ires, mres):
        return "impl != model: impl %r model %r" % (pc.show_ev(ires)[:300], pc.show_ev(mres)[:300])
    has_ast, wf_strict, wf_lax, sem, sem_mod, _cls = flags
    if has_ast and wf_lax and sem_mod and mres != meaning:
        if wf_strict and sem:
            return "output != meaning of the pattern: output %r meaning %r" % (pc.show_ev(mres)[:300], pc.show_ev(meaning)[:300])
        return "known class: output %r meaning %r" % (pc.show_ev(mres)[:300], pc.show_ev(meaning)[:300])
    return None


def known_finding(case, impl, model):
    ires, mres, flags, meaning = _parts(impl, model)
    if not pc.ev_match(ires, mres):
        return None
    has_ast, wf_strict, wf_lax, sem, sem_mod, cls = flags
    if not (has_ast and wf_lax and sem_mod) or (wf_strict and sem):
        return None
    if not wf_strict:
        return "F-C09-empty-spec-lookahead"
    if cls:
        return "F-C09-mdc-first-piece"
    return None


def nontrivial(case):
    return bool(case[5]) and pc.has_formatter(case[5][0])


def classify(case):
    seq = case[5][0] if case[5] else []
    kinds = set()
    for n in pc.walk(seq):
        if n[0] == 2:
            nm = pc.uncp(n[1])
            kinds.add("date" if nm in pc.DATE else "mdc" if nm in pc.MDC else
                      "group" if any(nm in g for g in pc.GROUPS) else "leaf")
    return "+".join(sorted(kinds)) or "text-only"


def extra_checks(ctx, cases, impl_lines, model_lines):
    """pattern encoders DECLARED IN CONFIGURATION FILES (C14's renderings: the pattern text passes through the
    YAML / JSON / TOML front-end and PatternEncoderDeserializer): what is written must be what the same pattern
    given to PatternEncoder::new writes (C14 compares with the programmatic configuration)"""
    from gen import xcheck

    def has_pattern(c):
        try:
            from gen import c14
            if c[5] != "render":
                return False
            doc = c14.dec_tree(c[0])
            apps = doc.get("appenders") or {}
            return any(isinstance(a, dict) and isinstance(a.get("encoder"), dict) and "\\\\" in str(a["encoder"].get("pattern", ""))
                       for a in apps.values())
        except Exception:
            return False
    res = xcheck.borrow(ctx, "C14", "a pattern encoder declared in a configuration file", has_pattern, n=30)
    if res:
        return res
    # "nothing dropped": width specs the unary model is not run on (maxima of 2^k + r, minima around 2^16, minima no
    # sink can hold into a sink that fails after 300 bytes) judged directly
    from gen import c11
    return c11.wide_spec_checks(ctx, ctx["vc"].build_harness("c11"))
