"""C10 — width / fill / alignment count characters, truncate then pad, never split UTF-8.
case: ( script pieces target items )
  script : ( n ... )   bytes the sink accepts at its i-th write call, cycled; 0 = all; () = all
  pieces : ( str ... ) the pieces the message's Display impl writes, one write_str each
  target : str
  items  : ( item ... ) with item = (0 params) {m} | (1 text) literal | (2 params) {t} | (3 params) {l}
                                   | (4 params items) {(items)}
  params : ( mn mx align fill )  mn, mx: 0 = absent, k+1 = width k; align 0 absent / 1 '<' / 2 '>';
           fill: one char, '' = absent (space)"""
import itertools

# exhaustive palette: 1,2,3,4 bytes + combining acute (2 bytes); the multi-byte ones are chosen with
# extreme continuation bytes (C3 BF / E0 A0 80 / F4 8F BF BF) so that a wrong lead-byte test
# (e.g. 0xBF or 0x80 taken for a character start) changes the count
PALETTE = ["a", "\u00ff", "\u0800", "\U0010ffff", "\u0301"]
# further characters for the sampled / random families (the design's e-acute, euro, U+1D11E; range ends)
EXTRA = ["\u00e9", "\u20ac", "\U0001d11e", "b", "Z", "\u0080", "\u07ff", "\uffff", "\U00010000",
         "\u200d", "\ufe0f"]
WIDTHS = [0, 1, 2, 3, 4, 6]                                   # encoded: absent, 0, 1, 2, 3, 5
FILLS = [" ", "~", "\u00e9", "\U0001d11e", "}", "{", "(", ")", ":", "0", "<", ">", ".", "\u0301", "\u20ac", "\\"]
SCRIPTS = [[], [1], [2], [3]]
NOP = [0, 0, 0, ""]

RULE = ("single spec {m:SPEC}: every (min,max) in {absent,0,1,2,3,5}^2 (incl. min>max) x both alignments x "
        "every text of <= 3 (quick) / <= 4 (thorough) characters over {a, U+00FF (C3 BF), U+0800 (E0 A0 80), "
        "U+10FFFF (F4 8F BF BF), combining acute U+0301} x every splitting of the text into non-empty "
        "write_str pieces, with the fill drawn from 16 characters (multi-byte, combining, and the syntax "
        "characters } { ( ) : 0 < > . \\) and the sink script drawn from {accept all, 1, 2, 3 bytes per "
        "call}; single pieces of 2-8 KiB of uniform 1/2/3/4-byte characters under minimum widths around their character "
        "count; 20 (60) cases encoded after records whose message FAILED half-way inside aligned fields on the same thread "
        "(thorough: all four for texts <= 3 chars, two for 4 chars), every ninth combination also with a sink "
        "whose write calls intermittently fail with ErrorKind::Interrupted (nothing written; write_all retries) and a "
        "fifth of the random scripts with such a call inserted; the same for a random sample of "
        "4-6 character texts over a wider palette (e-acute, euro, U+1D11E, U+0080, U+07FF, U+FFFF, U+10000, "
        "ZWJ, VS16); default-fill / default-alignment spellings ({m:5}, {m:>5}, {m:.3}); then the nested "
        "family {({m:A}{l}):B} and random pattern trees (depth <= 3, groups of <= 3 items over {m}, {t}, "
        "{l}, literals, min<=max<=7) with random pieces (some empty), random target and random sink scripts "
        "(entries 0..5, length <= 4); a wide-column family: min widths {15,16,17,31,32,33,63,64,65,66,100,"
        "127,128,129,200,255,256,257,1000} x both alignments x max absent / equal / min+1 / larger x ASCII, "
        "syntax and multi-byte fills x empty, short and 70-character texts, max-only wide cuts, and nested "
        "groups whose inner column is wider than 64 and is padded / cut again by one or two outer groups. "
        "non-trivial = some spec has a width and the text it applies to is "
        "non-empty or min > 0; distinct = distinct case line")
ASSUMPTIONS = [
    "the sink's write accepts between 1 and len bytes per call and never fails (Ok(0)/Err end the encode call with an error and are outside the property)",
    "text reaches the writers as whole &str pieces (safe Rust: fmt::Write::write_str / write_all of str bytes); sub-character splits arise only from short writes of the sink, which are covered",
    "set_style calls carry no text and are not exercised (no {h(..)} in the generated patterns)",
    "explicit widths in the correspondence run are <= 7 in the exhaustive/random families and selected values up to 1000 (around 16, 32, 64, 128, 256) in the wide-column family; the theorems are for all widths",
    "cases with min > max (outside the property's quantifier) are compared with the model (which pads, then truncates, like the code) and checked for valid UTF-8 and at most max characters, but not against the law fit",
]
TRUSTED = ["the sink oracle of Model/Width.v (1 <= accepted <= offered, infallible) and std's write_all / fmt adapter behaviour modelled from their documentation"]
RELEASE_TOO = True          # the sampled cases also run through the release-profile harness (see ./check)
EXHAUSTIVE = {"quick": False, "thorough": False}


def _s(x):
    return x.decode("utf-8") if isinstance(x, (bytes, bytearray)) else x


def splittings(chars):
    n = len(chars)
    if n == 0:
        yield []
        return
    for mask in range(1 << (n - 1)):
        pieces, cur = [], chars[0]
        for i in range(1, n):
            if mask >> (i - 1) & 1:
                pieces.append(cur)
                cur = chars[i]
            else:
                cur += chars[i]
        pieces.append(cur)
        yield pieces


def single(script, pieces, params):
    return [script, pieces, "tgt", [[0, params]]]


def rand_text(rng, lo, hi):
    return [rng.choice(PALETTE + EXTRA + ["a"]) for _ in range(rng.range(lo, hi))]


def rand_pieces(rng, chars):
    pieces, cur = [], ""
    for ch in chars:
        if cur and rng.chance(1, 2):
            pieces.append(cur)
            cur = ""
        cur += ch
    if cur:
        pieces.append(cur)
    if rng.chance(1, 5):
        pieces.insert(rng.below(len(pieces) + 1), "")
    return pieces


INTR = 99      # this write call returns ErrorKind::Interrupted (nothing written); std's write_all retries
INTR_SCRIPTS = [[INTR, 0], [1, INTR], [INTR, 2, INTR, INTR, 3], [0, INTR, 1]]


def rand_script(rng):
    r = rng.below(8)
    if r < 4:
        sc = list(SCRIPTS[r])
    else:
        sc = [rng.below(6) for _ in range(rng.range(1, 4))]
    if rng.chance(1, 5):
        sc = (sc or [0])
        sc.insert(rng.below(len(sc) + 1), INTR)
    return sc


def run_impl(ctx, cases, lines):
    """three harness processes with different colour environments (NO_COLOR=1 / CLICOLOR_FORCE=1 / none): widths,
    fills and alignment do not depend on them"""
    from concurrent.futures import ThreadPoolExecutor
    vc = ctx["vc"]
    envs = []
    for extra in ({"NO_COLOR": "1", "CLICOLOR": "0"}, {"CLICOLOR_FORCE": "1"}, {}):
        e = dict(vc.ENV)
        for k in ("NO_COLOR", "CLICOLOR", "CLICOLOR_FORCE"):
            e.pop(k, None)
        e.update(extra)
        envs.append(e)
    parts = [list(range(k, len(lines), 3)) for k in range(3)]
    res = [None] * len(lines)
    with ThreadPoolExecutor(max_workers=3) as ex:
        outs = list(ex.map(lambda k: vc.run_lines([ctx["vh"]], [lines[i] for i in parts[k]], timeout_per_batch=900,
                                                  env=envs[k]), range(3)))
    for k in range(3):
        for i, g in zip(parts[k], outs[k]):
            res[i] = g
    return res


def model_lines(ctx, cases, lines, impl_lines):
    """an interrupted write call is invisible in the model (it accepts nothing and is retried)"""
    vc = ctx["vc"]
    out = []
    for c, ln in zip(cases, lines):
        if INTR in c[0]:
            ln = vc.show([[x for x in c[0] if x != INTR]] + list(c[1:]))
        out.append(ln)
    return out


def rand_params(rng, allow_none=True):
    if allow_none and rng.chance(1, 5):
        return list(NOP)
    mn = rng.choice([0, 0, 1, 2, 3, 4, 5, 6, 8])
    mx = rng.choice([0, 0, 1, 2, 3, 4, 5, 6, 8])
    if mn and mx and mn > mx:
        mn, mx = mx, mn
    style = rng.below(4)
    if style == 0:
        return [mn, mx, 0, ""]
    if style == 1:
        return [mn, mx, rng.range(1, 2), ""]
    return [mn, mx, rng.range(1, 2), rng.choice(FILLS)]


def rand_items(rng, depth):
    items = []
    for _ in range(rng.range(0 if depth < 3 else 1, 3)):
        k = rng.below(8)
        if k < 3:
            items.append([0, rand_params(rng)])
        elif k == 3:
            items.append([1, "".join(rng.choice(["x", "-", "\u00e9", "\U0001d11e", " ", "\u0301", ":"]) for _ in range(rng.range(1, 3)))])
        elif k == 4:
            items.append([2, rand_params(rng)])
        elif k == 5:
            items.append([3, rand_params(rng)])
        elif depth > 0:
            items.append([4, rand_params(rng, allow_none=False), rand_items(rng, depth - 1)])
        else:
            items.append([0, rand_params(rng)])
    return items


def cases(rng, tier):
    out = []
    thorough = tier != "quick"
    maxlen = 4 if thorough else 3
    idx = 0
    texts = [list(t) for n in range(0, maxlen + 1) for t in itertools.product(PALETTE, repeat=n)]
    tp = [(t, p) for t in texts for p in splittings(t)]
    # sampled longer texts
    for _ in range(400 if thorough else 60):
        t = [rng.choice(PALETTE + EXTRA) for _ in range(rng.range(4, 6))]
        tp.append((t, rand_pieces(rng, t)))
    for (t, pieces) in tp:
        for mn in WIDTHS:
            for mx in WIDTHS:
                for al in (1, 2):
                    fill = rng.choice(FILLS)
                    if thorough and len(t) <= 3:
                        scs = SCRIPTS
                    elif thorough:
                        scs = [rng.choice(SCRIPTS), rng.choice(SCRIPTS)]
                    else:
                        scs = [rng.choice(SCRIPTS)]
                    for sc in scs:
                        out.append(single(sc, pieces, [mn, mx, al, fill]))
                    if idx % 9 == 0:
                        out.append(single(INTR_SCRIPTS[(idx // 9) % len(INTR_SCRIPTS)], pieces, [mn, mx, al, fill]))
                    idx += 1
    # default spellings
    for (t, pieces) in tp[:: 7]:
        for mn in WIDTHS:
            for mx in WIDTHS:
                for al in (0, 1, 2):
                    out.append(single(rng.choice(SCRIPTS), pieces, [mn, mx, al, ""]))
                    idx += 1
    out += wide_cases(rng, thorough)
    # nested family {({m:A}{l}):B}
    for _ in range(20000 if thorough else 3000):
        t = rand_text(rng, 0, 5)
        a = rand_params(rng)
        b = rand_params(rng, allow_none=False)
        out.append([rand_script(rng), rand_pieces(rng, t), "tgt", [[4, b, [[0, a], [3, list(NOP)]]]]])
    # random trees
    for _ in range(60000 if thorough else 6000):
        t = rand_text(rng, 0, 6)
        tgt = "".join(rand_text(rng, 0, 4))
        out.append([rand_script(rng), rand_pieces(rng, t), tgt, rand_items(rng, 3)])
    return out


WIDE = [9, 10, 11, 12, 15, 16, 17, 21, 22, 31, 32, 33, 43, 63, 64, 65, 66, 100, 127, 128, 129, 200, 255, 256, 257, 1000]
WIDE_FILLS = ["", " ", "~", "0", "}", "\u00e9", "\U0001d11e", "\u0301", "\u20ac", "\u4e2d"]
WIDE3 = ["\u20ac", "\u4e2d"]   # 3-byte fills: a padding block of 2^k bytes is not a whole number of them
WIDE_TEXTS = [[], ["a"], ["ab", "c"], ["\u00ff"], ["\U0010ffff", "a\u0301"], ["0123456789"],
              ["x" * 40, "y" * 30], ["\u20ac" * 70], ["ab" * 33, "\U0001d11e" * 3]]


def wide_cases(rng, thorough):
    """wide columns: pads and cuts far beyond any internal buffer size (64, 128, 256 ...)"""
    out = []
    for w in WIDE:
        for al in (1, 2):
            for mxk in ("absent", "equal", "larger", "plus1"):
                mx = {"absent": 0, "equal": w + 1, "larger": w + 1 + rng.range(2, 70), "plus1": w + 2}[mxk]
                fills = WIDE_FILLS if thorough else [rng.choice(WIDE_FILLS[:5]), rng.choice(WIDE_FILLS[5:8]), rng.choice(WIDE3)]
                for fill in fills:
                    texts = WIDE_TEXTS if thorough else [WIDE_TEXTS[0], rng.choice(WIDE_TEXTS[1:6]), rng.choice(WIDE_TEXTS[6:])]
                    for pieces in texts:
                        a = al if fill else rng.choice([0, al])
                        if a == 0 and fill:
                            a = al
                        out.append(single(rng.choice(SCRIPTS), list(pieces), [w + 1, mx, a, fill]))
        # max only: a long text cut at a wide column
        for pieces in WIDE_TEXTS[6:]:
            out.append(single(rng.choice(SCRIPTS), list(pieces), [0, w + 1, 0, ""]))
    # very wide columns (1365 .. 10000), each case TWICE in a row (all cases of a run are encoded on one thread, so
    # the second one meets whatever the first left behind: a cached run of fill characters, a grown buffer), same
    # fill and another fill alternating, both alignments, short and empty texts
    for w in ([1365, 1366, 1367, 2731, 4096, 4097] if thorough else [1366, 1400, 2000]):
        for al in (1, 2):
            for fill in WIDE_FILLS[1:] if thorough else ["~", "\u00e9", "\u20ac", "\u4e2d", "\U0001d11e"]:
                for pieces in ([], ["ab", "c"]):
                    c1 = single(SCRIPTS[0], list(pieces), [w + 1, 0, al, fill])
                    out += [c1, [list(x) if isinstance(x, list) else x for x in c1]]
                    out.append(single(SCRIPTS[0], ["x"], [w + 1 - 3, 0, al, "\u20ac" if fill != "\u20ac" else "\u4e2d"]))
    # ONE piece of 2 .. 8 KiB (uniform 1-, 2-, 3-, 4-byte characters and a mix) under a minimum width just below,
    # at and above its character count, a maximum width cutting it, and both; also inside a group
    for n in ([2047, 2048, 2049, 4096, 8200] if thorough else [2048, 2049, 4100]):
        for unit in ("a", "\u00e9", "\u20ac", "\U0001d11e", "ab\u00e9"):
            chars = (n // len(unit.encode("utf-8"))) * len(unit)
            text = unit * (n // len(unit.encode("utf-8")))
            for al in (1, 2):
                for mn in (chars - 1, chars, chars + 2):
                    out.append(single([], [text], [mn + 1, 0, al, rng.choice(["", "~", "\u20ac"])]))
                out.append(single(rng.choice(SCRIPTS), [text], [chars - 6 + 1, chars - 3 + 1, al, ""]))
                out.append([[], [text], "tgt", [[4, [chars + 2 + 1, 0, al, "*"], [[0, [0, chars - 2 + 1, 0, ""]]]]]])
    # after records whose message FAILED half-way inside aligned fields on the same thread (target "poison")
    for _ in range(60 if thorough else 20):
        t = [rng.choice(PALETTE + EXTRA) for _ in range(rng.range(0, 5))]
        c = single(rand_script(rng), rand_pieces(rng, t), [rng.range(1, 9), 0, rng.range(1, 2), rng.choice(FILLS)])
        c[2] = "poison"
        out.append(c)
    # nested: the inner group's output is wider than 64 and is cut / padded again by the outer one
    for _ in range(1500 if thorough else 250):
        wi, wo = rng.choice(WIDE), rng.choice(WIDE)
        if rng.chance(1, 3):
            wo = wi + rng.range(-2, 70)
        inner = [wi + 1, rng.choice([0, 0, wi + 1, wi + 1 + rng.range(1, 9)]), rng.range(1, 2), rng.choice(WIDE_FILLS[1:])]
        omax = rng.choice([0, 0, wo + 1, wo + 1 + rng.range(1, 9)])
        outer = [rng.choice([0, wo + 1, wo + 1]), omax, rng.range(1, 2), rng.choice(WIDE_FILLS[1:])]
        if not outer[0] and not outer[1]:
            outer[0] = wo + 1
        body = [[0, inner]]
        if rng.chance(1, 2):
            body.append([3, [rng.choice([0, 6, 71]), 0, rng.range(1, 2), rng.choice(WIDE_FILLS[1:])]])
        if rng.chance(1, 3):
            body.insert(0, [1, rng.choice(["-", "\u00e9:", "x" * 10])])
        items = [[4, outer, body]]
        if rng.chance(1, 3):
            items = [[4, [rng.choice(WIDE) + 1, 0, rng.range(1, 2), rng.choice(WIDE_FILLS[1:])], items]]
        out.append([rand_script(rng), list(rng.choice(WIDE_TEXTS)), "tgt", items])
    return out


def corpus():
    # the patterns named in the design; short writes; min > max
    return [
        [[1], ["ab", "cde"], "t", [[0, [6, 4, 1, "~"]]]],                 # {m:~<5.3}
        [[1], ["a"], "t", [[0, [5, 0, 2, "\u00e9"]]]],                    # {m:é>4}
        [[2], ["é€", "\U0001d11ea"], "t", [[4, [7, 5, 2, ""], [[0, [0, 4, 0, ""]], [3, list(NOP)]]]]],  # {({m:.3}{l}):>6.4}
        [[1], ["éa"], "t", [[0, [0, 2, 0, ""]]]],                    # cut right after a short-written char
        [[], ["abc"], "t", [[0, [6, 3, 1, "~"]]]],                        # min > max
        [[], [], "t", [[0, [66, 0, 1, ""]]]],                             # {m:<65} on an empty message
        [[3], ["0123456789"], "t", [[0, [101, 0, 2, "~"]]]],              # {m:~>100}
        [[], ["a"], "t", [[4, [131, 201, 2, "0"], [[0, [71, 0, 1, "~"]], [3, list(NOP)]]]]],  # {({m:~<70}{l}):0>130.200}
    ]


def _walk(items):
    for it in items:
        if it[0] in (0, 2, 3):
            yield it[1], None
        elif it[0] == 4:
            yield it[1], it[2]
            yield from _walk(it[2])


def _min_gt_max(c):
    return any(p[0] and p[1] and p[0] > p[1] for p, _ in _walk(c[3]))


def nontrivial(c):
    text = "".join(_s(p) for p in c[1])
    for p, _sub in _walk(c[3]):
        if (p[0] or p[1]) and (text or p[0] > 1):
            return True
    return False


def classify(c):
    items = c[3]
    kind = "single" if len(items) == 1 and items[0][0] == 0 else "tree"
    sc = {(): "all", (1,): "1byte", (2,): "2byte", (3,): "3byte"}.get(tuple(c[0]), "mixed")
    ps = [p for p, _ in _walk(items)]
    w = "none"
    if any(p[0] and p[1] for p in ps):
        w = "min+max"
    elif any(p[1] for p in ps):
        w = "max"
    elif any(p[0] for p in ps):
        w = "min"
    return "%s sink=%s widths=%s" % (kind, sc, w)


def _params_str(p):
    mn, mx, al, fill = p[0], p[1], p[2], _s(p[3])
    if not mn and not mx and not al and not fill:
        return ""
    s = ":" + fill + {0: "", 1: "<", 2: ">"}[al]
    if mn:
        s += str(mn - 1)
    if mx:
        s += "." + str(mx - 1)
    return s


def pattern_str(items):
    s = ""
    for it in items:
        if it[0] == 0:
            s += "{m" + _params_str(it[1]) + "}"
        elif it[0] == 1:
            s += _s(it[1])
        elif it[0] == 2:
            s += "{t" + _params_str(it[1]) + "}"
        elif it[0] == 3:
            s += "{l" + _params_str(it[1]) + "}"
        else:
            s += "{(" + pattern_str(it[2]) + ")" + _params_str(it[1]) + "}"
    return s


def describe(c):
    return {"pattern": pattern_str(c[3]), "message_pieces": [_s(p) for p in c[1]], "target": _s(c[2]),
            "sink_accepts_per_call": list(c[0]) or "all"}


def _fit(p, chars):
    """the property's law, directly: cut to max characters, then pad to min on the chosen side"""
    mn, mx, al, fill = p[0], p[1], p[2], _s(p[3]) or " "
    if mx:
        chars = chars[: mx - 1]
    if mn and len(chars) < mn - 1:
        pad = [fill] * (mn - 1 - len(chars))
        chars = pad + chars if al == 2 else chars + pad
    return chars


def _meaning(items, msg, tgt):
    out = []
    for it in items:
        if it[0] == 0:
            out += _fit(it[1], list(msg))
        elif it[0] == 1:
            out += list(_s(it[1]))
        elif it[0] == 2:
            out += _fit(it[1], list(tgt))
        elif it[0] == 3:
            out += _fit(it[1], list("INFO"))
        else:
            out += _fit(it[1], _meaning(it[2], msg, tgt))
    return out


def compare(c, impl, model):
    # the model follows the code for every width pair (also min > max: pad, then truncate), so the
    # bytes are compared in all cases; the law itself (min <= max only) is checked in extra_checks
    if impl != model:
        return "impl != model (bytes reaching the sink)"
    if _min_gt_max(c) and isinstance(impl, (bytes, bytearray)):
        items = c[3]
        try:
            txt = bytes(impl).decode("utf-8")
        except UnicodeDecodeError:
            return "output is not valid UTF-8"
        if len(items) == 1 and items[0][0] in (0, 2, 3, 4) and items[0][1][1] and len(txt) > items[0][1][1] - 1:
            return "more than max characters emitted"
    return None


def extra_checks(ctx, cases, impl_lines, model_lines):
    """direct oracles on the implementation's output: valid UTF-8, and equal to the law of the
    property statement computed independently of the Coq model (python `_meaning`)."""
    vc = ctx["vc"]
    res = []
    bad_utf8 = bad_law = None
    for i, c in enumerate(cases):
        try:
            iv = vc.parse(impl_lines[i])
        except Exception:
            continue
        if not isinstance(iv, (bytes, bytearray)):
            continue
        try:
            txt = bytes(iv).decode("utf-8")
        except UnicodeDecodeError:
            if bad_utf8 is None:
                bad_utf8 = i
            continue
        if _min_gt_max(c):
            continue
        want = "".join(_meaning(c[3], "".join(_s(p) for p in c[1]), _s(c[2])))
        if txt != want and bad_law is None:
            bad_law = (i, want)
    if bad_utf8 is not None:
        i = bad_utf8
        res.append(("output is not valid UTF-8 (a multi-byte character was split)",
                    {"case_line": vc.show(cases[i]), "case_description": describe(cases[i]),
                     "impl": impl_lines[i]}))
    if bad_law is not None:
        i, want = bad_law
        res.append(("output differs from fit(min,max,fill,align) computed directly from the property text",
                    {"case_line": vc.show(cases[i]), "case_description": describe(cases[i]),
                     "impl": vc.jsonable(vc.parse(impl_lines[i])), "expected": want}))
    if res:
        return res
    # width specs on the OTHER formatters (dates, highlight / debug / release groups, MDC, ...), under the time zones
    # and colour environments of C09's processes: borrowed from C09 (its cases, harness, model and judge)
    from gen import xcheck
    from gen import patcommon as pc

    def spec_on_date_or_group(c):
        try:
            if not c[5]:
                return False
            for n in pc.walk(c[5][0]):
                if n[0] == 2 and n[3][0] and pc.uncp(n[1]) in ("d", "date", "h", "highlight", "D", "debug", "R", "release", "X", "mdc"):
                    return True
            return False
        except Exception:
            return False
    res = xcheck.borrow(ctx, "C09", "a width spec on a date / group / MDC formatter", spec_on_date_or_group, n=900)
    if res:
        return res
    # aligned / truncated fields whose text comes from a message that, while it is formatted, has ANOTHER record
    # encoded on the same thread (with aligned fields of its own), or that fails half-way: C09's modes 6 and 9
    res = xcheck.borrow(ctx, "C09", "an aligned / truncated field around a message that logs or fails while it is formatted",
                        lambda c: c[0] in (6, 9), n=400, seed_salt=23)
    if res:
        return res
    # widths the unary model is not run on: maxima of 2^k + r, minima around 2^16, minima no sink can hold
    from gen import c11
    vh11 = vc.build_harness("c11")
    return c11.wide_spec_checks(ctx, vh11) or c11.thread_exit_checks(ctx, vh11)

