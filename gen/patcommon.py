"""Shared by C09 and C11 (pattern encoder): pattern AST helpers, the documented
grammar's printer, record generators and the three-step run protocol.

python case: ( mode pattern rec mdc thread ast envsel )
  mode    1 construct + encode, 2 construct only, 4 = as 1 but the harness first encodes the
          pid/thread formatters, then forks and encodes in the child (the model sees mode 1),
          5 = as 1 but the process's time zone is switched AFTER the encoder was built and before it is used (TZ
          variable; the zone stays switched for the later cases of that process; the date oracle is rendered after
          the switch),
          9 = as 1 but on the same thread three records whose message FAILS half-way inside aligned / truncated /
          highlighted fields were encoded first (the failures caught): nothing of them may show in the observed record,
          6 = as 1 but the message argument's Display impl itself encodes another record through a `{m}`
          pattern on the same thread before writing its text (re-entrant encode; both must be unaffected)
  pattern code points
  rec     ( level msg target module? file? line? )      options are () or (v)
  mdc     ( (key value).. )      thread () | (name)
  ast     () | ( (node..) [junk] )   node = (0 text) | (1 c st) | (2 name ((node..)..) spec)
          spec = (colon fa min max), fa = () | (() a) | ((fill) a), min/max = () | (digits)
          junk (C11 only): code points appended after the printed AST
  envsel  ( tz profile )  tz index into TZS, profile 0 debug / 1 release harness build

Run protocol (the clock, pid, thread id and Unicode classes cannot be injected
into the crate, so they are observed and handed to the model as oracles):
  1. harness `(3 chars)`            -> is_alphabetic / is_alphanumeric of all non-ASCII pattern chars
  2. model   `(0 pattern cls)`      -> the date formats the compiled pattern will render
  3. harness `(mode pattern rec mdc thread formats)` -> (cls rt times res)
  4. model   `(mode pattern rec mdc thread cls rt times ast)`
A rendering that changed between the harness's before/after probes is masked:
digits become WD (matches any digit), other changed positions WA (matches anything).
"""
import os

TZS = ["UTC", "Asia/Tokyo"]
WD = 0xF8FF   # wildcard: any ASCII digit
WA = 0xF8FE   # wildcard: any character

SPECIALS = "{}()\\"

LEAVES = [("l", "level"), ("m", "message"), ("M", "module"), ("n", "n"), ("f", "file"), ("L", "line"),
          ("T", "thread"), ("I", "thread_id"), ("P", "pid"), ("i", "tid"), ("t", "target")]
GROUPS = [("h", "highlight"), ("D", "debug"), ("R", "release"), ("", "")]
DATE = ("d", "date")
MDC = ("X", "mdc")

UNI = ["é", "€", "\U0001d11e", "́", "١", "Ⅳ", "中", "ß"]
LIT_CHARS = list("abcxyzLMdmh 0159:<>.-_%,;=|/'\"#") + UNI
FILLS = [" ", "~", "0", "*", "é", "\U0001d11e", "€", "中", "}", "{", "(", ")", ":", "<", ">", ".", "\\", "́", "5"]

# strftime directives whose rendering cannot change within a run / may change
STABLE_DIR = ["%Y", "%C", "%y", "%G", "%%", "%z", "%:z", "%Z", "%m", "%b", "%B", "%h", "%U", "%W", "%V"]
UNSTABLE_DIR = ["%H", "%M", "%S", "%+", "%s", "%f", "%.3f", "%.f", "%T", "%R", "%c", "%d", "%e", "%j", "%a", "%p", "%3f"]


def cp(s):
    return [ord(c) for c in s]


def uncp(v):
    return "".join(chr(c) for c in v)


# ---------------------------------------------------------------- AST

def lit(s):
    return [0, cp(s)]


def esc(c, st):
    return [1, ord(c), st]


def spec(colon=0, fa=None, mn=None, mx=None):
    """fa = None | (fill-or-None, align 0/1); mn/mx = None | digit string"""
    if fa is None:
        f = []
    elif fa[0] is None:
        f = [[], fa[1]]
    else:
        f = [[ord(fa[0])], fa[1]]
    return [1 if colon else 0, f, [] if mn is None else [cp(mn)], [] if mx is None else [cp(mx)]]


NOSPEC = spec()


def fmt(name, args=(), sp=None):
    return [2, cp(name), [list(a) for a in args], sp if sp is not None else NOSPEC]


def print_spec(sp):
    colon, fa, mn, mx = sp
    if not fa and not mn and not mx:
        return ":" if colon else ""
    out = ":"
    if fa:
        if fa[0]:
            out += chr(fa[0][0])
        out += "<" if fa[1] == 0 else ">"
    if mn:
        out += uncp(mn[0])
    if mx:
        out += "." + uncp(mx[0])
    return out


def print_node(n):
    if n[0] == 0:
        return uncp(n[1])
    if n[0] == 1:
        c = chr(n[1])
        return c + c if n[2] == 0 else "\\" + c
    return "{" + uncp(n[1]) + "".join("(" + print_seq(a) + ")" for a in n[2]) + print_spec(n[3]) + "}"


def print_seq(seq):
    return "".join(print_node(n) for n in seq)


def has_formatter(seq):
    return any(n[0] == 2 for n in seq)


def walk(seq):
    for n in seq:
        yield n
        if n[0] == 2:
            for a in n[2]:
                yield from walk(a)


def max_width(seq):
    m = 0
    for n in walk(seq):
        if n[0] == 2:
            for w in (n[3][2], n[3][3]):
                if w:
                    m = max(m, int(uncp(w[0]) or "0"))
    return m


# ---------------------------------------------------------------- records

MSGS = ["hello", "", "héllo wörld", "€\U0001d11e", "a{b}c(d)\\e", "x" * 20, "é", " ", "line1\nline2",
        "{m}", "中文", "0"]
TARGETS = ["app::mod", "", "té", "a" * 12, "\U0001d11e", "x y"]
MODULES = ["crate::m", "", "möd", "€"]
FILES = ["src/main.rs", "", "fé.rs", "/a/b c.rs"]
LINES = [0, 1, 42, 99999, 4294967295]
MDC_KEYS = ["k", "user_id", "a", "a{b", "clé", "", "K", "d", "zz", "(", "{", "}", ")", "\\"]
MDC_VALS = ["v", "", "123e4567", "valüe", "{x}", "\U0001d11e€", "a b"]
THREADS = ["main", "worker-1", "thréad", ""]


def opt(x):
    return [] if x is None else [x]


def rand_record(rng):
    return [rng.range(1, 5), cp(rng.choice(MSGS)), cp(rng.choice(TARGETS)),
            opt(cp(rng.choice(MODULES)) if rng.chance(2, 3) else None),
            opt(cp(rng.choice(FILES)) if rng.chance(2, 3) else None),
            opt(rng.choice(LINES) if rng.chance(2, 3) else None)]


def rand_mdc(rng, want=()):
    keys = []
    for k in list(want) + [rng.choice(MDC_KEYS) for _ in range(rng.below(3))]:
        if k not in keys:
            keys.append(k)
    return [[cp(k), cp(rng.choice(MDC_VALS))] for k in keys]


def rand_thread(rng):
    return opt(cp(rng.choice(THREADS)) if rng.chance(2, 3) else None)


def rand_envsel(rng, tier):
    return [rng.below(len(TZS)), rng.below(2) if tier == "thorough" else 0]


FULL_REC = [3, cp("héllo"), cp("app::t"), [cp("crate::m")], [cp("src/m.rs")], [42]]
BARE_REC = [1, cp("msg"), cp("t"), [], [], []]


# ---------------------------------------------------------------- run protocol

def prepare(ctx, binname, release_in_quick=False):
    vc = ctx["vc"]
    ctx["vh"] = vc.build_harness(binname)
    ctx["vh_release"] = (vc.build_harness(binname, release=True)
                         if ctx["tier"] == "thorough" or release_in_quick else None)


def _nonascii(cases):
    s = set()
    for c in cases:
        for x in c[1]:
            if x >= 128:
                s.add(x)
    return sorted(s)


def run_impl(ctx, cases, lines):
    vc = ctx["vc"]
    if not cases:
        return []
    # 1. character classes
    chars = _nonascii(cases)
    out = vc.run_lines([ctx["vh"]], [vc.show([3, chars])], timeout_per_batch=120)
    table = {e[0]: e for e in vc.parse(out[0])}
    # 2. date formats per case (model, mode 0)
    q = [vc.show([0, c[1], [table[x] for x in sorted(set(y for y in c[1] if y >= 128))]]) for c in cases]
    reqs = vc.run_lines([ctx["drv"]], q, timeout_per_batch=600, crash_marker="xmodelcrash")
    treqs = []
    for i, r in enumerate(reqs):
        try:
            v = vc.parse(r)
        except Exception:
            v = None
        if not isinstance(v, list):
            raise vc.Broken("corr:%s/model-run" % ctx["pid"], "model mode 0 failed on %s -> %s" % (q[i][:300], r[:200]))
        treqs.append(v)
    ctx["treqs"] = treqs
    # 3. the real crate, grouped by (TZ, build profile)
    res = [None] * len(cases)
    groups = {}
    for i, c in enumerate(cases):
        groups.setdefault((c[6][0], c[6][1]), []).append(i)
    for (tz, prof), idx in sorted(groups.items()):
        exe = ctx["vh_release"] if prof == 1 and ctx.get("vh_release") else ctx["vh"]
        env = dict(vc.ENV)
        env["TZ"] = TZS[tz]
        # the pattern encoder's output (text and set_style calls) does not depend on the colour variables
        # - those are the console writer's business (C18): half of the processes run with NO_COLOR=1
        # (and CLICOLOR=0), the other half with CLICOLOR_FORCE=1
        if tz % 2 == 1:
            env["NO_COLOR"] = "1"
            env["CLICOLOR"] = "0"
        else:
            env["CLICOLOR_FORCE"] = "1"
        hl = [vc.show([cases[i][0], cases[i][1], cases[i][2], cases[i][3], cases[i][4], treqs[i]]) for i in idx]
        # a parser bug can loop forever while allocating: cap the child's address space
        # and wall clock, run in growing chunks and give up on the group after a few
        # aborts/hangs (the remaining cases are reported as aborted), so that such a
        # tree is reported as a violation quickly instead of killing the machine
        cmd = ["/bin/bash", "-c", "ulimit -v 1500000; exec \"$0\"", exe]
        got, pos, size, crashes = [], 0, 25, 0
        while pos < len(hl):
            if crashes > 3:
                got.extend(["xabort"] * (len(hl) - pos))
                break
            part = vc.run_lines(cmd, hl[pos:pos + size], timeout_per_batch=60 if size <= 25 else 240, env=env)
            crashes += sum(1 for x in part if x in ("xabort", "xhang"))
            got.extend(part)
            pos += size
            size = min(size * 8, 4000)
        for i, g in zip(idx, got):
            res[i] = g
    return res


def _mask(before, after):
    if before == after:
        return before
    if len(before) != len(after):
        return [WA] * len(before)
    out = []
    for b, a in zip(before, after):
        if 48 <= b <= 57 and 48 <= a <= 57:
            out.append(WD)
        elif b == a:
            out.append(b)
        else:
            out.append(WA)
    # a digit that did not change between the probes may still have been different
    # in between (…190 -> …205 -> …290): mask every digit of a changed rendering
    return [WD if 48 <= x <= 57 else x for x in out]


def model_lines(ctx, cases, lines, impl_lines, keep_junk=False):
    vc = ctx["vc"]
    out = []
    for i, c in enumerate(cases):
        try:
            iv = vc.parse(impl_lines[i])
        except Exception:
            iv = None
        if not (isinstance(iv, list) and len(iv) == 4):
            # the harness died on this case: the model still needs oracles; none can matter
            iv = [[], [0, 0, 1 - c[6][1]], [[0, [], [], [], []] for _ in ctx["treqs"][i]], b"abort"]
        cls, rt, times, _res = iv
        tt = []
        for f, t in zip(ctx["treqs"][i], times):
            tt.append([f, t[0], _mask(t[1], t[2]), _mask(t[3], t[4])])
        ast = c[5]
        if ast and not keep_junk:
            ast = [ast[0]]
        out.append(vc.show([1 if c[0] in (4, 5, 6, 9) else c[0], c[1], c[2], c[3], c[4], cls, rt, tt, ast]))
    return out


def ev_match(impl_ev, model_ev):
    """impl events vs model events; the model's text may contain the wildcards"""
    if not isinstance(impl_ev, list) or not isinstance(model_ev, list):
        return impl_ev == model_ev
    if len(impl_ev) != len(model_ev):
        return False
    for a, b in zip(impl_ev, model_ev):
        if isinstance(a, int) or isinstance(b, int):
            if a != b:
                return False
            continue
        if not isinstance(a, list) or not isinstance(b, list) or len(a) != len(b):
            return False
        for x, y in zip(a, b):
            if y == WD:
                if not (48 <= x <= 57):
                    return False
            elif y == WA:
                continue
            elif x != y:
                return False
    return True


def flat(ev):
    """events -> flat list of code points and ('S', code) style marks"""
    out = []
    for e in ev:
        if isinstance(e, int):
            out.append(("S", e))
        else:
            out.extend(e)
    return out


def flat_prefix_match(impl_flat, model_flat):
    """model_flat (with wildcards) is a prefix of impl_flat"""
    if len(model_flat) > len(impl_flat):
        return False
    for x, y in zip(impl_flat, model_flat):
        if y == WD:
            if not (isinstance(x, int) and 48 <= x <= 57):
                return False
        elif y == WA:
            if not isinstance(x, int):
                return False
        elif x != y:
            return False
    return True


def show_ev(ev):
    if not isinstance(ev, list):
        return repr(ev)
    parts = []
    for e in ev:
        parts.append("<style %d>" % e if isinstance(e, int) else uncp(e) if isinstance(e, list) else repr(e))
    return "".join(parts)


def describe(c):
    d = {"mode": c[0], "pattern": uncp(c[1]),
         "record": {"level": c[2][0], "msg": uncp(c[2][1]), "target": uncp(c[2][2]),
                    "module": uncp(c[2][3][0]) if c[2][3] else None,
                    "file": uncp(c[2][4][0]) if c[2][4] else None,
                    "line": c[2][5][0] if c[2][5] else None},
         "mdc": {uncp(k): uncp(v) for k, v in c[3]},
         "thread": uncp(c[4][0]) if c[4] else None,
         "tz": TZS[c[6][0]], "profile": "release" if c[6][1] else "debug",
         "from_ast": bool(c[5])}
    if c[5] and len(c[5]) > 1:
        d["junk"] = uncp(c[5][1])
    return d
