"""C16 — time trigger: get_next_time / TimeTrigger::new / trigger through the real crate,
one child process per time zone, against the extracted model that is handed the
zone's transition table as data.

case: ( tz init_off ( (T off flag) ... ) kind payload )
 kind 0: payload = ( now_s:Z now_ns unit n modulate )
 kind 1: payload = ( unit n modulate max_delay (s0:Z ns0) ( (s:Z ns) ... ) )
 unit: 0 second 1 minute 2 hour 3 day 4 week 5 month 6 year
The zone table (UTC offset before the first listed transition, then transitions
(UTC instant, new offset, gap-start-exclusive flag)) is read by this module from
the TZif file with `struct` and, past the file's table, from Python's `zoneinfo`
(both independent of chrono); only the window of the table around the instants of
the case is put into the case line."""
import bisect
import datetime
import os
import struct
import zoneinfo

ZONES = ["UTC", "Asia/Tokyo", "Asia/Kolkata", "Europe/Berlin", "America/New_York",
         "Australia/Lord_Howe", "America/Havana", "Pacific/Apia"]
UNITS = ["second", "minute", "hour", "day", "week", "month", "year"]
UNIT_SECS = [1, 60, 3600, 86400, 604800, 31 * 86400, 366 * 86400]
YEARS = [2011, 2012, 2023, 2024, 2025, 2026, 2027, 2028]
RULE_YEARS = [2040, 2051]          # past the TZif tables (footer-rule path of chrono)
DAY = 86400
WINDOW = 400 * DAY
END_RULE_SCAN = int(datetime.datetime(2100, 1, 1, tzinfo=datetime.timezone.utc).timestamp())
UTC = datetime.timezone.utc

RULE = ("per zone in {UTC, Asia/Tokyo, Asia/Kolkata, Europe/Berlin, America/New_York, Australia/Lord_Howe, "
        "America/Havana, Pacific/Apia}: instants drawn from (a) second/minute/hour/day/ISO-week/month/year "
        "boundaries, leap days and year ends of 2011, 2012, 2023-2028 with jitter -3..+3 s, (b) every DST "
        "transition of those years (and of 2040, 2051 on chrono's footer-rule path) -2 h..+2 h at 10-minute "
        "steps and the following 30 h at 30-minute steps, jitter -1..+1 s, (c) uniform instants 1971-2036; "
        "x 7 units x n in {1,2,3,4,5,7,12,24,25,400} (sometimes 0, 6, 10, 15, 30, 60, 2^31, 2^32+k, 300000, "
        "10^12, 2^62) x modulate; get_next_time compared as Ok t / panic with the model; plus trigger "
        "sequences (a real TimeTrigger inside a real RollingFileAppender, driven clock, 2-6 arrivals, "
        "max_random_delay in {0,1,5,3600}): initial schedule, fire pattern, scheduled instant after every "
        "record (exact for delay 0, inside [base, base+max) otherwise), archived and active file contents. "
        "Direct oracle (independent of the Coq model): for 1 <= n <= 10^6 and every get_next_time case whose zone "
        "offset (zone table) is constant from the start of the current unit to the expected boundary, the crate's "
        "result must equal the boundary computed with Python datetime/isocalendar arithmetic and lie after now. "
        "non-trivial = n >= 1 (kind 0) / at least two arrivals (kind 1); distinct = distinct case line")
ASSUMPTIONS = [
    "chrono 0.4.45 Local (unix tz_info back end) resolves local times as modelled in Model/TZ.v; zone tables "
    "come from /usr/share/zoneinfo (TZif table via struct, footer-rule years via Python zoneinfo)",
    "month/year results for DST zones are kept below 2096 (the model is given the table up to 2100); "
    "fixed-offset zones are unrestricted",
    "interval multipliers 0 <= n < 2^63 (what the config parser yields); the random delay is observed from "
    "the scheduled instant, not controlled",
    "the harness is built with the dev profile (overflow-checks on), as the model assumes",
    "theorem hypotheses: zone table `sane K` (asserted by the generator for all 8 tables, K = max |offset|); "
    "n >= 1 and n < 2^31 (years) / n < 2^32 with local now in 1970..chrono max (months); the offset in force at "
    "now is constant from the start of the current unit to the later of now and the boundary (otherwise the case "
    "falls in F-C16-dst-overlap-panic / F-C16-fallback-storm or is only compared model-vs-crate); never-panics is "
    "proved for zones without transitions and in-range intervals only",
]
TRUSTED = ["Python zoneinfo + the TZif files under /usr/share/zoneinfo as the source of the model's zone tables",
           "hooks verif_hooks::set_clock, TimeTrigger::verif_get_next_time/verif_scheduled, "
           "TimeTriggerConfig::verif_parts"]
RELEASE_TOO = True          # the sampled cases also run through the release-profile harness (see ./check)
EXHAUSTIVE = {"quick": False, "thorough": False}

F_OVERLAP = "F-C16-dst-overlap-panic"
F_STORM = "F-C16-fallback-storm"
F_DEGEN = "F-C16-degenerate-interval"


def Zv(v):
    return [1 if v < 0 else 0, abs(v)]


def unZ(v):
    return -v[1] if v[0] else v[1]


# --------------------------------------------------------------------------
# zone tables

_tables = {}


def _tzif(name):
    b = open(os.path.join("/usr/share/zoneinfo", name), "rb").read()
    assert b[:4] == b"TZif" and b[4] >= ord("2"), name
    isutc, isstd, leap, timecnt, typecnt, charcnt = struct.unpack(">6l", b[20:44])
    b = b[44 + timecnt * 5 + typecnt * 6 + charcnt + leap * 8 + isstd + isutc:]
    assert b[:4] == b"TZif"
    isutc, isstd, leap, timecnt, typecnt, charcnt = struct.unpack(">6l", b[20:44])
    assert leap == 0, "leap-second zone files are not modelled"
    p = 44
    times = struct.unpack(">%dq" % timecnt, b[p:p + 8 * timecnt])
    p += 8 * timecnt
    idx = list(b[p:p + timecnt])
    p += timecnt
    types = [struct.unpack(">lBB", b[p + 6 * i:p + 6 * i + 6]) for i in range(typecnt)]
    p += 6 * typecnt + charcnt + isstd + isutc
    footer = b[p:].strip().decode()
    return times, idx, types, footer


def zone_table(name):
    """(init_off, [(T, off, flag)]) — whole table 1800..2100"""
    if name in _tables:
        return _tables[name]
    times, idx, types, footer = _tzif(name)
    init = types[0][0]
    trans = [(t, types[i][0], 0) for t, i in zip(times, idx)]
    zi = zoneinfo.ZoneInfo(name)

    def off(t):
        return int(datetime.datetime.fromtimestamp(t, zi).utcoffset().total_seconds())

    # the table must agree with zoneinfo (independent reading of the same data)
    prev = init
    for (t, o, _f) in trans:
        if t > -2**31 and t < 2**31 - 1:
            assert off(t) == o and (off(t - 1) == prev or t == times[0]), (name, t)
        prev = o
    if "," in footer:
        # footer rule: transitions past the table, found by scanning zoneinfo
        t = (times[-1] if times else 0) + DAY
        cur = off(t)
        found = []
        while t < END_RULE_SCAN:
            o2 = off(t + DAY)
            if o2 != cur:
                lo, hi = t, t + DAY
                while hi - lo > 1:
                    mid = (lo + hi) // 2
                    if off(mid) == cur:
                        lo = mid
                    else:
                        hi = mid
                found.append((hi, cur, o2))
                cur = o2
            t += DAY
        for (T, p, o) in found:
            flag = 0
            if o > p:
                # forward transition; second in its local year?
                yr = datetime.datetime.fromtimestamp(T, zi).year
                flag = 1 if any(o1 < p1 and datetime.datetime.fromtimestamp(T1, zi).year == yr and T1 < T
                                for (T1, p1, o1) in found) else 0
            trans.append((T, o, flag))
    # the theorems' zone class `sane K z` (Proofs/TZ.v): offsets within [-K, K], consecutive
    # transitions more than 2K apart -- holds for every table used here with K = max |offset|
    K = max([abs(init)] + [abs(o) for (_t, o, _f) in trans])
    assert all(trans[i + 1][0] - trans[i][0] > 2 * K for i in range(len(trans) - 1)), (name, "not sane")
    _tables[name] = (init, trans)
    return _tables[name]


def window(name, lo, hi):
    init, trans = zone_table(name)
    ts = [t for (t, _o, _f) in trans]
    a = bisect.bisect_left(ts, lo - WINDOW)
    b = bisect.bisect_right(ts, hi + WINDOW)
    i0 = trans[a - 1][1] if a > 0 else init
    return Zv(i0), [[Zv(t), Zv(o), f] for (t, o, f) in trans[a:b]]


def has_rule(name):
    return "," in _tzif(name)[3]


def dst_transitions(name, years):
    init, trans = zone_table(name)
    out = []
    prev = init
    for (t, o, f) in trans:
        if o != prev and datetime.datetime.fromtimestamp(t, UTC).year in years:
            out.append(t)
        prev = o
    return out


# --------------------------------------------------------------------------
# instants

_pools = {}


def _local(zi, *a):
    try:
        return int(datetime.datetime(*a, tzinfo=zi).timestamp())
    except (ValueError, OverflowError):
        return None


def pools(name):
    if name in _pools:
        return _pools[name]
    zi = zoneinfo.ZoneInfo(name)
    bnd = []
    for y in YEARS:
        for m in range(1, 13):
            bnd.append(_local(zi, y, m, 1))
        for (m, d) in ((2, 28), (2, 29), (3, 1), (6, 15), (6, 16)):
            bnd.append(_local(zi, y, m, d))
        for d in range(20, 32):
            bnd.append(_local(zi, y, 12, d))
        for d in range(1, 13):
            bnd.append(_local(zi, y, 1, d))
        for h in (0, 1, 11, 12, 13, 23):
            bnd.append(_local(zi, y, 6, 15, h))
            bnd.append(_local(zi, y, 6, 15, h, 30))
            bnd.append(_local(zi, y, 6, 15, h, 59, 59))
            bnd.append(_local(zi, y, 6, 15, h, 17, 30))
    bnd = sorted(set(t for t in bnd if t is not None))
    dst = []
    for t in dst_transitions(name, YEARS + (RULE_YEARS if has_rule(name) else [])):
        for k in range(-12, 13):
            dst.append(t + 600 * k)
        for k in range(5, 61):
            dst.append(t + 1800 * k)
    _pools[name] = (bnd, sorted(set(dst)))
    return _pools[name]


LO_RANDOM = 31536000        # 1971-01-01
HI_RANDOM = 2114380800      # 2037-01-01
N_MAIN = [1, 2, 3, 4, 5, 7, 12, 24, 25, 400]
N_ODD = [0, 6, 10, 15, 30, 60, 2**31, 2**32, 2**32 + 5, 300000, 10**12, 2**62, 2**63 - 1, 100, 1000]


def pick_instant(rng, name):
    bnd, dst = pools(name)
    k = rng.below(10)
    if k < 4 or (k < 8 and not dst):
        return rng.choice(bnd) + rng.range(-3, 3)
    if k < 8:
        return rng.choice(dst) + rng.range(-1, 1)
    return rng.range(LO_RANDOM, HI_RANDOM)


def target_ok(name, now, unit, n):
    """month/year results of DST zones must stay inside the table handed to the model
    (or be far outside chrono's range)"""
    if unit < 5 or not has_rule(name):
        return True
    y = datetime.datetime.fromtimestamp(now, UTC).year
    ty = y + n + 1 if unit == 6 else y + (n % 2**32) // 12 + 2
    if unit == 6:
        n32 = (n + 2**31) % 2**32 - 2**31
        ty = y + n32 + 1
        return ty < 2096 and ty > 1990 or ty > 270000 or n32 <= 0
    return ty < 2096 or ty > 270000


def _span(lo, hi, unit, n):
    """instants the model may have to resolve: month/year targets lie n units away
    (n is cast to u32 / i32 by the code)"""
    if unit == 5:
        hi = hi + (n % 2**32 + 2) * UNIT_SECS[5]
    if unit == 6:
        n32 = (n + 2**31) % 2**32 - 2**31
        if n32 >= 0:
            hi = hi + (n32 + 2) * UNIT_SECS[6]
        else:
            lo = lo + (n32 - 2) * UNIT_SECS[6]
    return max(lo, -10**10), min(hi, END_RULE_SCAN)


def mk0(name, now, ns, unit, n, mod):
    lo, hi = _span(now, now, unit, n)
    i0, tr = window(name, lo, hi)
    return [name, i0, tr, 0, [Zv(now), ns, unit, n, 1 if mod else 0]]


def mk1(name, unit, n, mod, maxd, start, arrivals):
    ts = [start[0]] + [a[0] for a in arrivals]
    lo, hi = _span(min(ts), max(ts), unit, n)
    i0, tr = window(name, lo, hi)
    return [name, i0, tr, 1,
            [unit, n, 1 if mod else 0, maxd, [Zv(start[0]), start[1]], [[Zv(s), ns] for (s, ns) in arrivals]]]


def _utc(name, *a, fold=0):
    return int(datetime.datetime(*a, tzinfo=zoneinfo.ZoneInfo(name), fold=fold).timestamp())


def corpus():
    B, H, L = "Europe/Berlin", "America/Havana", "Australia/Lord_Howe"
    out = []
    # F-C16-dst-overlap-panic: 02:30 on 2025-10-26 in Berlin, either offset; the hour after the overlap
    for fold in (0, 1):
        t = _utc(B, 2025, 10, 26, 2, 30, fold=fold)
        for u in (0, 1, 2):
            out.append(mk0(B, t, 0, u, 1, False))
    out.append(mk0(B, _utc(B, 2025, 10, 26, 3, 30), 0, 2, 1, False))
    # Havana: the fall-back overlap contains local midnight: day/week panic the whole day
    out.append(mk0(H, _utc(H, 2025, 11, 2, 12, 30), 0, 3, 1, False))
    out.append(mk0(H, _utc(H, 2025, 11, 2, 12, 30), 0, 4, 1, True))
    # Lord Howe on the footer-rule path: truncation hits the gap start exactly -> None
    out.append(mk0(L, _utc(L, 2040, 10, 7, 2, 45), 0, 2, 1, False))
    # F-C16-fallback-storm: last local hour of the 25-hour day
    t = _utc(B, 2025, 10, 26, 23, 10)
    out.append(mk0(B, t, 0, 3, 1, False))
    out.append(mk0(B, t, 0, 4, 1, False))
    out.append(mk1(B, 3, 1, False, 0, (t - 7200, 0), [(t, 0), (t + 1, 5), (t + 2, 0), (t + 3, 0)]))
    out.append(mk0(L, _utc(L, 2025, 4, 6, 1, 45, fold=1), 0, 2, 1, False))
    # F-C16-degenerate-interval
    for u in range(7):
        out.append(mk0("UTC", 1700000000, 0, u, 0, True))
    out.append(mk0("UTC", 1700000000, 0, 6, 300000, False))
    out.append(mk0("UTC", 1700000000, 0, 5, 2**32, True))
    out.append(mk0("UTC", 1700000000, 0, 0, 2**62, False))
    out.append(mk1("UTC", 0, 0, True, 0, (1700000000, 0), [(1700000001, 0)]))
    out.append(mk1(B, 2, 1, False, 0, (_utc(B, 2025, 10, 26, 1, 30), 0),
                   [(_utc(B, 2025, 10, 26, 2, 30, fold=0), 0), (_utc(B, 2025, 10, 26, 5, 0), 0)]))
    # regular behaviour
    out.append(mk0("UTC", 1700000000, 123, 2, 3, True))
    out.append(mk1("Asia/Kolkata", 1, 5, True, 0, (1700000000, 0),
                   [(1700000100, 0), (1700000300, 1), (1700000300, 2), (1700000900, 0)]))
    return out


def cases(rng, tier):
    out = []
    n0 = 24000 if tier == "quick" else 300000
    n1 = 1500 if tier == "quick" else 20000
    for _ in range(n0):
        name = rng.choice(ZONES)
        now = pick_instant(rng, name)
        unit = rng.below(7)
        n = rng.choice(N_MAIN) if rng.chance(9, 10) else rng.choice(N_ODD)
        mod = rng.below(2)
        if not target_ok(name, now, unit, n):
            n = rng.choice([1, 2, 3, 5, 7, 12])
        ns = rng.choice([0, 0, 1, 999999999, rng.below(10**9)])
        out.append(mk0(name, now, ns, unit, n, mod))
    for _ in range(n1):
        name = rng.choice(ZONES)
        start = pick_instant(rng, name)
        unit = rng.below(7)
        n = rng.choice(N_MAIN[:8]) if rng.chance(19, 20) else rng.choice([0, 300000, 2**32])
        mod = rng.below(2)
        if not target_ok(name, start + 7 * 366 * DAY, unit, n):
            n = rng.choice([1, 2, 3])
        maxd = rng.choice([0, 0, 0, 0, 1, 5, 3600])
        us = UNIT_SECS[unit]
        t = start
        arr = []
        for _k in range(rng.range(2, 6)):
            step = rng.choice([0, 0, 1, 2, us // 2, us - 1, us, us + 1, n * us, n * us + us // 3, 3 * n * us,
                               rng.below(2 * n * us + 2)])
            if rng.chance(1, 12):
                step = -rng.below(us + 2)
            t = t + step
            if not (LO_RANDOM - 10 * DAY < t < END_RULE_SCAN - 30 * 366 * DAY):
                t = start
            arr.append((t, rng.choice([0, 0, 1, 999999999, rng.below(10**9)])))
        if not all(target_ok(name, a[0], unit, n) for a in arr):
            continue
        out.append(mk1(name, unit, n, mod, maxd, (start, rng.choice([0, 5, 999999999])), arr))
    # a trigger that lives through a change of the UTC offset: built up to two shifts before a transition (both
    # directions), short intervals (the scheduled instant falls near the transition), records every few minutes
    # until two shifts after it - the schedule is an INSTANT; whether a record is at or past it does not depend on
    # what the wall clock shows on either side of the transition
    dst_zones = [z for z in ZONES if dst_transitions(z, YEARS)]
    for _ in range(500 if tier == "quick" else 8000):
        name = rng.choice(dst_zones)
        T = rng.choice(dst_transitions(name, YEARS))
        init, trans = zone_table(name)
        offs = [init] + [o for (_t, o, _f) in trans]
        idx = [t for (t, _o, _f) in trans].index(T)
        shift = abs(offs[idx + 1] - offs[idx]) or 3600
        unit = rng.choice([0, 1, 1, 1, 2, 2])
        n = rng.choice([1, 2, 3, 5, 7, 12, 25, 45, 90] if unit == 1 else [1, 2, 3, 7, 400] if unit == 0 else [1, 2, 3])
        start = T - rng.below(2 * shift + 1)
        t = start
        arr = []
        for _k in range(rng.range(2, 6)):
            t += rng.choice([1, 60, 300, 600, 900, 1500, 1800, 2700, 3599, 3600, rng.below(2 * shift + 2)])
            arr.append((t, rng.choice([0, 0, 1, 999999999])))
        out.append(mk1(name, unit, n, rng.below(2), 0, (start, rng.choice([0, 5, 999999999])), arr))
    return out


def nontrivial(c):
    if c[3] == 0:
        return c[4][3] >= 1
    return len(c[4][5]) >= 2 and c[4][1] >= 1


def classify(c):
    p = c[4]
    if c[3] == 0:
        return "next %s %s" % (c[0] if isinstance(c[0], str) else c[0].decode(), UNITS[p[2]])
    return "seq %s" % UNITS[p[0]]


def _name(c):
    return c[0] if isinstance(c[0], str) else c[0].decode()


def _iso(name, t):
    try:
        return datetime.datetime.fromtimestamp(t, zoneinfo.ZoneInfo(name)).isoformat()
    except (ValueError, OverflowError, OSError):
        return "utc_seconds=%d" % t


def describe(c):
    name = _name(c)
    p = c[4]
    if c[3] == 0:
        return {"TZ": name, "call": "get_next_time", "now": _iso(name, unZ(p[0])), "now_utc_s": unZ(p[0]),
                "nanos": p[1], "interval": "%d %s" % (p[3], UNITS[p[2]]), "modulate": bool(p[4])}
    return {"TZ": name, "call": "TimeTrigger::new + appends", "interval": "%d %s" % (p[1], UNITS[p[0]]),
            "modulate": bool(p[2]), "max_random_delay": p[3], "created_at": _iso(name, unZ(p[4][0])),
            "arrivals": [[_iso(name, unZ(a[0])), a[1]] for a in p[5]]}


# --------------------------------------------------------------------------
# running


def run_impl(ctx, cases_, lines):
    vc = ctx["vc"]
    res = [None] * len(lines)
    by = {}
    for i, c in enumerate(cases_):
        by.setdefault(_name(c), []).append(i)
    for name, idxs in by.items():
        env = dict(vc.ENV)
        env["TZ"] = name
        outl = vc.run_lines([ctx["vh"]], [lines[i] for i in idxs], timeout_per_batch=600, env=env)
        for i, o in zip(idxs, outl):
            res[i] = o
    return res


def model_lines(ctx, cases_, lines, impl_lines):
    vc = ctx["vc"]
    out = []
    for c, line, il in zip(cases_, lines, impl_lines):
        if c[3] == 0:
            out.append(line)
            continue
        obs = [Zv(0), []]
        try:
            iv = vc.parse(il)
            if isinstance(iv, list) and len(iv) == 3:
                obs = [iv[0], [(s[2] if len(s) == 4 else Zv(0)) for s in iv[1]]]
        except Exception:
            pass
        out.append(vc.show(list(c) + [obs]))
    return out


def _agree(c, iv, mv):
    """None when the real crate and the model agree on the observable, else text"""
    if c[3] == 0:
        if iv == b"panic":
            return None if (isinstance(mv, list) and mv[0] == 1) else "impl panics, model: %r" % (mv,)
        return None if iv == mv else "impl %r != model %r" % (iv, mv)
    if isinstance(mv, list) and len(mv) == 2 and mv[0] == 2:
        return None if iv == [2] else "model: TimeTrigger::new panics, impl: %r" % (iv,)
    if not (isinstance(iv, list) and len(iv) == 3 and isinstance(mv, list) and len(mv) == 4):
        return "impl %r != model %r" % (iv, mv)
    if mv[3] != 1:
        return "a scheduled instant of the real trigger is outside [base, base + max(max_random_delay,1))"
    if iv[0] != mv[0]:
        return "initial schedule differs"
    if len(iv[1]) != len(mv[1]):
        return "step count differs"
    for k, (a, b) in enumerate(zip(iv[1], mv[1])):
        if a[0] != b[0] or (a[0] == 0 and a != b):
            return "step %d: impl %r != model %r" % (k, a, b)
    if iv[2] != mv[2]:
        return "active file contents differ"
    return None


def _degenerate(n):
    """the interval class of F-C16-degenerate-interval: zero, or beyond any sensible range"""
    return n == 0 or n >= 200000


def _property_failure(c, mv):
    """the property's own verdict on an (agreed) observable: (finding-class, text) or None"""
    p = c[4]
    if c[3] == 0:
        n = p[3]
        if mv[0] == 1:
            if mv[1] in (2, 3):
                return (F_OVERLAP, "get_next_time panics: unwrap on %s" % ("None" if mv[1] == 2 else "Ambiguous"))
            return (F_DEGEN if _degenerate(n) else None, "get_next_time panics (arithmetic/range)")
        if unZ(mv[1]) <= unZ(p[0]):
            return (F_DEGEN if _degenerate(n) else F_STORM, "next scheduled instant is not after now")
        return None
    n = p[1]
    if len(mv) == 2:
        if mv[1] in (2, 3):
            return (F_OVERLAP, "TimeTrigger::new panics: unwrap on None/Ambiguous")
        return (F_DEGEN if _degenerate(n) else None, "TimeTrigger::new panics (arithmetic/range)")
    for k, st in enumerate(mv[1]):
        if st[0] == 1:
            if st[1] in (2, 3, 0):
                return (F_OVERLAP, "append panics inside trigger (unwrap on None/Ambiguous)")
            return (F_DEGEN if _degenerate(n) else None, "append panics inside trigger (arithmetic/range)")
        if st[1] == 1 and unZ(st[2]) <= unZ(p[5][k][0]):
            return (F_DEGEN if _degenerate(n) else F_STORM, "rescheduled instant is not after the firing record's time")
    return None


def compare(c, iv, mv):
    d = _agree(c, iv, mv)
    if d is not None:
        return d
    pf = _property_failure(c, mv)
    return None if pf is None else "model and crate agree, property violated: " + pf[1]


def known_finding(c, iv, mv):
    if _agree(c, iv, mv) is not None:
        return None
    pf = _property_failure(c, mv)
    return pf[0] if pf else None


# --------------------------------------------------------------------------
# direct oracle: the property statement computed with Python's datetime/zoneinfo
# (independent of the Coq model) against the real crate's get_next_time

_EPOCH = datetime.datetime(1970, 1, 1)


def _secs(dt):
    return (dt - _EPOCH) // datetime.timedelta(seconds=1)


def _expected_local(l, unit, n, mod):
    """(start of the current unit, expected local schedule) as naive local seconds"""
    dt = _EPOCH + datetime.timedelta(seconds=l)
    day = datetime.datetime(dt.year, dt.month, dt.day)
    D = datetime.timedelta(days=1)
    if unit == 0:
        return l, (_secs(dt.replace(second=0)) + (dt.second // n + 1) * n) if mod else l + n
    if unit == 1:
        ms = _secs(dt.replace(second=0))
        return ms, (_secs(dt.replace(minute=0, second=0)) + (dt.minute // n + 1) * n * 60) if mod else ms + 60 * n
    if unit == 2:
        hs = _secs(dt.replace(minute=0, second=0))
        return hs, (_secs(day) + (dt.hour // n + 1) * n * 3600) if mod else hs + 3600 * n
    if unit == 3:
        j1 = datetime.datetime(dt.year, 1, 1)
        if mod:
            return _secs(day), _secs(j1) + (((day - j1).days) // n + 1) * n * 86400
        return _secs(day), _secs(day) + n * 86400
    if unit == 4:
        monday = day - dt.weekday() * D
        iy, iw, _ = dt.isocalendar()
        ys = datetime.datetime.combine(datetime.date.fromisocalendar(iy, 1, 1), datetime.time())
        if mod:
            return _secs(monday), _secs(ys) + 7 * (((iw - 1) // n + 1) * n) * 86400
        return _secs(monday), _secs(monday) + 7 * n * 86400
    if unit == 5:
        k = 12 * dt.year + dt.month - 1
        k2 = 12 * dt.year + ((dt.month - 1) // n + 1) * n if mod else k + n
        if k2 // 12 > 9999:
            return None
        return _secs(datetime.datetime(dt.year, dt.month, 1)), _secs(datetime.datetime(k2 // 12, k2 % 12 + 1, 1))
    y2 = (dt.year // n + 1) * n if mod else dt.year + n
    if y2 > 9999:
        return None
    return _secs(datetime.datetime(dt.year, 1, 1)), _secs(datetime.datetime(y2, 1, 1))


def _offset_const(name, off, a, b):
    """offset `off` in force on the whole of [a, b] according to the zone table"""
    init, trans = zone_table(name)
    ts = [t for (t, _o, _f) in trans]
    i = bisect.bisect_right(ts, a)
    cur = trans[i - 1][1] if i > 0 else init
    if cur != off:
        return False
    j = bisect.bisect_right(ts, b)
    return all(trans[k][1] == off for k in range(i, j))


ORACLE_STATS = {"checked": 0, "skipped_offset_changes": 0}


def extra_checks(ctx, cases_, impl_lines, model_lines_):
    vc = ctx["vc"]
    bad = None
    for i, c in enumerate(cases_):
        if c[3] != 0:
            continue
        p = c[4]
        now, unit, n, mod = unZ(p[0]), p[2], p[3], p[4]
        if not (1 <= n <= 10**6) or not (0 <= now < 4 * 10**9):
            continue
        try:
            iv = vc.parse(impl_lines[i])
        except Exception:
            continue
        if not (isinstance(iv, list) and len(iv) == 2 and iv[0] == 0):
            continue
        name = _name(c)
        if has_rule(name) and now > END_RULE_SCAN - 3 * 366 * DAY:
            continue
        t = unZ(iv[1])
        zi = zoneinfo.ZoneInfo(name)
        off = int(datetime.datetime.fromtimestamp(now, zi).utcoffset().total_seconds())
        try:
            e = _expected_local(now + off, unit, n, bool(mod))
        except (ValueError, OverflowError):
            e = None
        if e is None:
            continue
        us, want = e
        hi = max(now, want - off)
        if has_rule(name) and hi > END_RULE_SCAN - DAY:
            continue
        if not _offset_const(name, off, us - off, hi):
            ORACLE_STATS["skipped_offset_changes"] += 1
            continue
        ORACLE_STATS["checked"] += 1
        if (t != want - off or t <= now) and bad is None:
            bad = (i, want - off, t)
    if bad is None:
        # the trigger inside a rolling appender: C05's histories under the REAL TimeTrigger and the hook clock
        # (appends before / at / after boundaries, restarts, bursts, a roller that fails at a boundary): the
        # rotation precedes the firing record, one rotation per boundary, a failed one is not repeated
        from gen import xcheck
        return (xcheck.borrow(ctx, "C05", "the time trigger driving a rolling appender",
                              lambda c: isinstance(c[0], list) and c[0] and c[0][0] == 3, n=200)
                # the interval the trigger schedules with is the one its configuration literal says ("3hours", "2\tweeks",
                # "90 Minutes", a bare number = seconds): C20's interval literals
                + xcheck.borrow(ctx, "C20", "the trigger's interval is what the configured literal says",
                                lambda c: c[0] == 1, n=1500, seed_salt=11)
                # ... whichever integer type the document's front-end delivers the bare number as (TOML: i64)
                + xcheck.borrow(ctx, "C20", "a bare number of seconds in a TOML document is that interval",
                                lambda c: c[0] == 1 and c[1] == 0 and c[3] == 2, n=200, seed_salt=61)
                # a rotation the trigger asked for happens - also in the `background_rotation` build while the previous
                # rotation is still running (C05's bursts on that build, some with a slow first rotation)
                + xcheck.borrow(ctx, "C05", "a requested rotation is carried out, however long the previous one takes",
                                lambda c: isinstance(c[1], list) and len(c[1]) > 5 and c[1][0] == 1 and c[1][5] == 1
                                and any(o[0] == 2 and sum(len(t) for t in o[1]) >= 4 for o in c[4]), n=80, seed_salt=59)
                # ... and literals that do not start with an ASCII digit or contain non-ASCII text (never a panic)
                + xcheck.borrow(ctx, "C20", "an interval literal with non-ASCII text is an error, not a panic",
                                lambda c: c[0] == 1 and c[1] in (2, 3) and any(x > 127 for x in c[2]), n=600, seed_salt=53))
    i, want, got = bad
    name = _name(cases_[i])
    return [("get_next_time differs from the property's boundary (python datetime oracle; the zone offset is "
             "constant from the start of the current unit to the boundary)",
             {"case_line": vc.show(cases_[i]), "case_description": describe(cases_[i]),
              "expected": _iso(name, want), "expected_utc_s": want, "impl": _iso(name, got), "impl_utc_s": got})]


def extra_coverage(ctx):
    return {"direct_oracle": dict(ORACLE_STATS)}
