"""C08 — a failed or interrupted rotation loses no acknowledged data and is recoverable.
case: ( b c limit pre gz pattern file mode0 nohook ( (path bytes) ... ) ( op ... ) )
  op (0 record (0)) | (0 record (1 k)) fault at hook call k | (0 record (2 k mode)) process death at
  hook call k + fresh appender on the crash image | (1 mode) restart | (2) / (3) directory obstacle at
  the top archive name on / off.        (see harness/src/rolling_c08.rs, coq/Run/C08.v)
result: ( (ack (image ...) listing) ... )  entry 0 = initial build, then one entry per op."""

RULE = ("enumerated part: count in {1..4} x base in {0,1,7} (rotating) x {SizeTrigger post-processing, a "
        "pre-processing trigger with the same criterion} x builder mode in {append, truncate} x {plain, .gz} x two "
        "base histories (limit 0: a rotation at every append; limit 9: every second append) x EVERY step k of EVERY "
        "one of the first 4 rotations x {hook returns Err at (rotation, k); process dies at (rotation, k) and a fresh "
        "appender in append mode / in truncate mode is started on a copy of the directory taken at that hook call} "
        "(thorough: all three at every point; quick: the Err at every point, the crash continuation at every point "
        "of the limit-0 history with alternating restart mode and at the last rotation of the limit-9 history), "
        "each followed by >= 3 further appends (which rotate again); the hook also snapshots the directory at every "
        "call of every rotation; for steps k >= 1 (vacant destination) the same fault is also produced by the REAL file "
        "system - at hook call k the step's destination becomes a non-empty directory, removed when the call has "
        "returned - so that the crate's own error path runs (quick: every such point for count 4, half of the others). "
        "Patterns with the index in the file name and in a DIRECTORY component "
        "(arch/{}/a.log, {}/a.log, z/{}/a.gz). Then real file-system failures without injected errors: (a) a "
        "non-empty directory at the top archive name (EISDIR) placed after 0..count-1 completed rotations, 1-3 "
        "failing appends, removal, >= 3 appends, with and without the hook installed; (b) the directory of archive "
        "slot j (every j < count) cannot be created - a dangling symlink or a regular file at its name - placed when "
        "j or j-1 rotations have completed: every rotation must fail with Err at the predicted step with nothing "
        "lost, and resume after removal. (c) EXPLORATION, outside the Coq model, direct oracle only: a rotation to a "
        ".gz archive under RLIMIT_FSIZE = current size of the active file (SIGXFSZ ignored; incompressible record "
        "payloads, so the active file fits and its archive does not: EFBIG while the gzip stream is written/finished): "
        "the append must return Err and every acknowledged record must still be intact in the active file or in an "
        "archive that decompresses completely (a truncated archive left behind counts for nothing), then >= 3 "
        "unrestricted appends. Then random histories (several faults/crashes/restarts/obstacle phases, "
        "pre-existing archives with gaps, pre-existing active file, record sizes 3..12, limits 0..20). Compared per "
        "op: Ok/Err (a panic is a difference), every hook-call directory image with the model's exec_prefix, the "
        "whole directory after the op (gunzipped). Independently of the model (direct oracle on the real "
        "directory, at every image and after every op): every managed file parses into whole records, ids strictly "
        "increase reading oldest archive -> active, no acknowledged record is missing between the oldest retained "
        "record and the newest (unless a truncating start discarded the active file), the newest acknowledged "
        "record is present, and whatever disappeared in one step is exactly the former top-index archive. "
        "non-trivial = the history contains a fault, a crash point or an obstacle phase; distinct = distinct case line")
ASSUMPTIONS = [
    "a failing rotation step leaves the directory untouched (the hook fails BEFORE the step; rename(2)/open(2) "
    "failing with EISDIR/ENOTDIR and create_dir_all failing on a dangling symlink or a regular file do the same); "
    "a step failing half-way is NOT in the Coq model: the gzip-output-partially-written case (EFBIG) is explored "
    "by the direct oracle only (family (c) of the rule: exploration, not proof); the copy+delete fallback across "
    "mount points and ENOSPC on other steps are not exercised",
    "process death is modelled at the hook points (between two file-system steps); rename is atomic",
    "record writes succeed and are flushed whole (encode + flush; BufWriter internals are C04's subject)",
    "active path and archive names are pairwise distinct (C07's injectivity theorem covers `{}` patterns); "
    "base + count <= 2^32 (the remaining debug overflow panic is C07's subject)",
    "gzip is observed through decompression in the harness (decompress(compress x) = x is flate2's contract)",
    "synchronous rotation (default build); the `background_rotation` feature is not covered",
    "a truncate-mode builder discards the active file at start-up by configuration: records in the active file "
    "at a truncating (re)start are not counted as lost",
]
RELEASE_TOO = True          # the cases also run through the release-profile harness (see ./check)
EXHAUSTIVE = {"quick": False, "thorough": False}
TRUSTED = ["libc dup2-based stdout silencing in the harness (the crate println!s on a failed final step)",
           "the guarded hook log4rs::verif_hooks::set_rotate_step (called before each shift and before the final "
           "move/compress; returning Err makes rotate() return that error at this point)"]
STATS = {"efbig_appends": 0, "damaged_archives_seen": 0, "slotdir_failures": 0, "images": 0, "faults_hit": 0, "crash_images": 0, "real_eisdir_failures": 0, "oracle_states": 0,
         "rotations_completed": 0}

PATTERNS = ["a.{}.log", "arch/a.{}.log", "{}/a.log", "arch/{}/a.log"]
GZ_PATTERNS = ["z/a.{}.gz", "a.{}.gz", "z/{}/a.gz", "zs/a.{}.zst", "a.{}.zst"]
DIR_PATTERNS = ["arch/{}/a.log", "{}/a.log"]          # {} in a directory component
DIR_GZ_PATTERNS = ["z/{}/a.gz"]


def name_of(pattern, i):
    return pattern.replace("{}", str(i))


def rec(i, n):
    fill = b"abcdefghijklmnopqrstuvwxyz"
    body = b"<%d>" % i
    return body + fill[: max(0, n - len(body) - 1)] + b";"


class Sim:
    """active-file length bookkeeping only: which appends attempt a rotation, which complete"""

    def __init__(self, c, limit, pre, mode0, init_len):
        self.c, self.limit, self.pre = c, limit, pre
        self.len = init_len if mode0 else 0
        self.obst = False
        self.dobst = False     # a slot directory cannot be created: every rotation is blocked
        self.done = 0          # completed rotations
        self.attempts = 0
        self.lowfull = 0       # number of archives present counted from base (no pre-existing archives)

    def append(self, n, fault):
        """returns (attempted, completed)"""
        if not self.pre:
            self.len += n
        fires = self.len > self.limit
        ok = True
        if fires:
            self.attempts += 1
            blocked = self.obst and (self.c == 1 or self.lowfull >= self.c - 1)
            ok = not blocked and not self.dobst and not (fault is not None and fault < self.c)
            if ok:
                self.len = 0
                self.done += 1
                self.lowfull = min(self.c, self.lowfull + 1)
        if self.pre and ok:
            self.len += n
        return fires, (fires and ok)

    def restart(self, mode):
        if not mode:
            self.len = 0


def mk(b, c, limit, pre, gz, pattern, file, mode0, nohook, init, ops):
    return [b, c, limit, pre, gz, pattern, file, mode0, nohook, init, ops]


def bystanders(pattern, file):
    return [[file + ".bak", b"bak"], [pattern.replace("{}", "x"), b"by1"], ["unrelated/deep/f.txt", b"by2"]]


def base_history(limit, n):
    sizes = [4, 5, 6, 5, 4, 7, 5, 4, 6, 5, 5, 4, 6, 5, 4, 5]
    return [rec(i, sizes[i % len(sizes)]) for i in range(n)]


def rotation_ops(c, limit, pre, mode0, recs, init_len=0):
    sim = Sim(c, limit, pre, mode0, init_len)
    out = []
    for i, r in enumerate(recs):
        fires, _ = sim.append(len(r), None)
        if fires:
            out.append(i)
    return out


def enumerated(tier):
    """every step k of each of the first 4 rotations.  thorough: fault, crash+append-mode restart,
    crash+truncate-mode restart at every point of both base histories.  quick: the fault at every
    point of both histories; the crash continuations at every point of the limit-0 history with the
    restart mode alternating, and at the last rotation of the limit-9 history"""
    out = []
    combo = 0
    quick = tier == "quick"
    for c in (1, 2, 3, 4):
        for pre in (0, 1):
            for mode0 in (1, 0):
                for gz in (0, 1):
                    for (limit, n) in ((0, 9), (9, 15)):
                        combo += 1
                        b = (0, 1, 7)[combo % 3]
                        pats = GZ_PATTERNS if gz else PATTERNS
                        pattern = pats[combo % len(pats)]
                        file = "app.log" if combo % 2 else "logs/cur.log"
                        recs = base_history(limit, n)
                        init = bystanders(pattern, file)
                        init_len = 0
                        if combo % 4 == 0:
                            init = init + [[file, b"<-1>;"]]
                            init_len = 5
                        rots = rotation_ops(c, limit, pre, mode0, recs, init_len)[:4]
                        for j, opi in enumerate(rots):
                            assert len(recs) - opi - 1 >= 3, (c, pre, limit, rots)
                            for k in range(c):
                                kinds = [[1, k], [2, k, 1], [2, k, 0]]
                                if quick:
                                    alt = [2, k, (j + k + combo) % 2]
                                    if limit == 0:
                                        kinds = [[1, k], alt]
                                    else:
                                        kinds = [[1, k]] + ([alt] if j == len(rots) - 1 else [])
                                # (only where the step has something to move: a missing source is tolerated
                                # before the destination is even looked at)
                                src_exists = (k == c - 1) or (c - 2 - k < j)
                                if k >= 1 and src_exists and (not quick or (j + k + combo) % 2 == 0 or c == 4):
                                    # the same fault produced by the REAL file system (obstacle at the step's
                                    # vacant destination): the crate's own error path runs
                                    kinds = kinds + [[4, k]]
                                for kind in kinds:
                                    ops = [[0, r, [0]] for r in recs]
                                    ops[opi] = [0, recs[opi], list(kind)]
                                    out.append(mk(b, c, limit, pre, gz, pattern, file, mode0, 0, init, ops))
    return out


def big_rec(i, n):
    body = b"<%d>" % i
    fill = bytes(97 + (j * 7 + i) % 26 for j in range(max(0, n - len(body) - 1)))
    return body + fill + b";"


def sized_obstacle_cases(tier):
    """a REAL obstacle (non-empty directory at the destination of a shift step) in front of archives whose LENGTH is
    that of a directory entry as file systems report it (4096 on ext4 / xfs, 60 .. 120 on tmpfs): move_file's copy
    fall-back must fail like for any other length, nothing may be taken for 'already moved'"""
    out = []
    sizes = [4096, 60, 80, 100, 120, 40, 4095] if tier != "quick" else [4096, 60, 80]
    for n in sizes:
        for c in (2, 3):
            for gz in (0,):
                for k in range(1, c):
                    recs = [big_rec(i, n) for i in range(c + 3)]
                    pattern, file = PATTERNS[(n + c) % len(PATTERNS)], "app.log"
                    ops = [[0, r, [0]] for r in recs]
                    ops[c] = [0, recs[c], [4, k]]          # the window is full by then: every step has a source
                    out.append(mk(0, c, 0, 0, gz, pattern, file, 1, 0, bystanders(pattern, file), ops))
    return out


def obstacle_cases(tier):
    out = []
    combo = 0
    quick = tier == "quick"
    for c in (1, 2, 3, 4):
        for pre in (0, 1):
            for mode0 in (1, 0):
                for gz in (0, 1):
                    for nohook in (1, 0):
                        for nbefore in range(0, c):          # completed rotations before the obstacle appears
                            for nfail in (1, 3):
                                combo += 1
                                if quick and (nfail == 3) == bool(nohook):
                                    continue
                                b = (0, 1, 7)[combo % 3]
                                pats = GZ_PATTERNS if gz else PATTERNS
                                pattern = pats[combo % len(pats)]
                                file = "app.log" if combo % 2 else "logs/cur.log"
                                limit = 0
                                ops = []
                                sim = Sim(c, limit, pre, mode0, 0)
                                i = 0
                                while sim.done < nbefore:
                                    r = rec(i, 5)
                                    sim.append(len(r), None)
                                    ops.append([0, r, [0]])
                                    i += 1
                                ops.append([2])
                                sim.obst = True
                                # appends while obstructed: rotations keep filling lower slots, then fail
                                failed = 0
                                guard = 0
                                while failed < nfail and guard < 12:
                                    r = rec(i, 5)
                                    fires, ok = sim.append(len(r), None)
                                    ops.append([0, r, [0]])
                                    i += 1
                                    guard += 1
                                    if fires and not ok:
                                        failed += 1
                                ops.append([3])
                                sim.obst = False
                                for _ in range(4):
                                    r = rec(i, 5)
                                    sim.append(len(r), None)
                                    ops.append([0, r, [0]])
                                    i += 1
                                out.append(mk(b, c, limit, pre, gz, pattern, file, mode0, nohook,
                                              bystanders(pattern, file), ops))
    return out


def dirobst_cases(tier):
    """the directory of one archive slot cannot be created (index in a directory component of the
    pattern): dangling symlink / regular file at the slot directory's name, placed when `nbefore`
    rotations have completed (slots base..base+nbefore-1 filled), slot j >= nbefore vacant"""
    out = []
    combo = 0
    quick = tier == "quick"
    for c in (1, 2, 3, 4):
        for j in range(0, c):
            for nbefore in sorted(set([j, max(0, j - 1)])):
                for pre in (0, 1):
                    for mode0 in (1, 0):
                        for gz in (0, 1):
                            for kind in (0, 1):
                                combo += 1
                                if quick and nbefore != j and (combo % 2):
                                    continue
                                b = (0, 1, 7)[combo % 3]
                                pats = DIR_GZ_PATTERNS if gz else DIR_PATTERNS
                                pattern = pats[combo % len(pats)]
                                file = "app.log" if combo % 2 else "logs/cur.log"
                                nohook = 1 if combo % 5 == 0 else 0
                                limit = 0
                                ops = []
                                sim = Sim(c, limit, pre, mode0, 0)
                                i = 0
                                while sim.done < nbefore:
                                    r = rec(i, 5)
                                    sim.append(len(r), None)
                                    ops.append([0, r, [0]])
                                    i += 1
                                ops.append([4, kind, j])
                                sim.dobst = True
                                failed = 0
                                nfail = 1 + combo % 3
                                guard = 0
                                while failed < nfail and guard < 8:
                                    r = rec(i, 5)
                                    fires, ok = sim.append(len(r), None)
                                    ops.append([0, r, [0]])
                                    i += 1
                                    guard += 1
                                    if fires and not ok:
                                        failed += 1
                                ops.append([5])
                                sim.dobst = False
                                for _ in range(4):
                                    r = rec(i, 5)
                                    sim.append(len(r), None)
                                    ops.append([0, r, [0]])
                                    i += 1
                                out.append(mk(b, c, limit, pre, gz, pattern, file, mode0, nohook,
                                              bystanders(pattern, file), ops))
    return out


def rnd_rec(rng, i, n):
    """record i with n incompressible payload bytes"""
    return b"<%d>" % i + bytes(rng.below(256) for _ in range(n)) + b";"


def fsize_cases(rng, tier):
    """EXPLORATION (outside the Coq model): an OS write error (EFBIG under RLIMIT_FSIZE, the moral
    equivalent of a full disk) while the gzip archive of a rotation is written.  The limit is the size
    the active file has when the rotation starts, so the active file fits and its archive (gzip of
    incompressible records is larger than its input) does not"""
    out = []
    n = 48 if tier == "quick" else 600
    for t in range(n):
        c = 1 + t % 3
        pre = (t // 3) % 2
        mode0 = 1 if t % 5 else 0
        b = (0, 1, 7)[t % 3]
        pattern = GZ_PATTERNS[t % len(GZ_PATTERNS)]
        file = "app.log" if t % 2 else "logs/cur.log"
        per = rng.range(2, 4)                   # records per chunk
        size = rng.choice([24, 40, 64, 120])
        limit = per * (size + 6) - 10
        nrec = per * 5 + 3
        recs = [rnd_rec(rng, i, size) for i in range(nrec)]
        target = rng.below(3)                   # which rotation meets the full disk
        sim = Sim(c, limit, pre, mode0, 0)
        ops = []
        seen = 0
        for r in recs:
            before = sim.len
            shown = before if pre else before + len(r)
            if shown > limit and seen == target:
                ops.append([0, r, [3, shown]])
                seen += 1
                # the rotation fails: model the bookkeeping by hand
                if not pre:
                    sim.len += len(r)
                continue
            fires, ok = sim.append(len(r), None)
            if fires:
                seen += 1
            ops.append([0, r, [0]])
        out.append(mk(b, c, limit, pre, 1, pattern, file, mode0, 0, bystanders(pattern, file), ops))
    return out


def random_case(rng):
    c = rng.choice([1, 2, 2, 3, 3, 4])
    b = rng.choice([0, 1, 7, 99])
    pre = rng.below(2)
    gz = rng.below(2)
    mode0 = 0 if rng.chance(1, 4) else 1
    limit = rng.choice([0, 0, 3, 9, 9, 20])
    pattern = rng.choice(GZ_PATTERNS if gz else PATTERNS)
    file = rng.choice(["app.log", "logs/cur.log"])
    init = bystanders(pattern, file)
    use_obst = rng.chance(1, 4)
    nid = 0
    pre_arch = []
    if not use_obst and rng.chance(1, 3):
        # pre-existing archives (any subset of the window: gaps allowed), oldest = highest index
        idx = [i for i in range(b + c - 1, b - 1, -1) if rng.chance(1, 2)]
        for i in idx:
            pre_arch.append([name_of(pattern, i), rec(nid, rng.range(4, 8))])
            nid += 1
    init_len = 0
    if rng.chance(1, 3):
        r = rec(nid, rng.range(4, 8))
        nid += 1
        init.append([file, r])
        init_len = len(r)
    init = init + pre_arch
    sim = Sim(c, limit, pre, mode0, init_len)
    sim.lowfull = c  # unknown layout with pre-existing archives: obstacle never used then
    if use_obst:
        sim.lowfull = 0
    ops = []
    nops = rng.range(4, 16)
    faulted = False        # after a partial shift the top slot may be occupied: no new obstacle then
    for _ in range(nops):
        k = rng.below(20)
        if k == 0:
            m = 0 if rng.chance(1, 3) else 1
            ops.append([1, m])
            sim.restart(m)
        elif k == 1 and use_obst and not sim.obst and sim.done < c and not faulted:
            ops.append([2])
            sim.obst = True
        elif k == 2 and sim.obst:
            ops.append([3])
            sim.obst = False
        else:
            r = rec(nid, rng.range(3, 12))
            nid += 1
            kind = [0]
            f = None
            q = rng.below(10)
            if q < 3:
                f = rng.below(c + 1)
                kind = [1, f]
            elif q < 5:
                f = rng.below(c + 1)
                m = 0 if rng.chance(1, 3) else 1
                kind = [2, f, m]
            faulted = faulted or f is not None
            fires, ok = sim.append(len(r), f)
            if kind[0] == 2:
                sim.restart(kind[2])
            ops.append([0, r, kind])
    if sim.obst:
        ops.append([3])
    for _ in range(3):
        ops.append([0, rec(nid, rng.range(3, 9)), [0]])
        nid += 1
    return mk(b, c, limit, pre, gz, pattern, file, mode0, 0, init, ops)


def corpus():
    pat, f = "a.{}.log", "app.log"
    return [
        # the repaired defect (c358786): truncate-mode appender, two acknowledged records, failing
        # roll, one more append -- both records must still be there
        mk(0, 2, 9, 0, 0, pat, f, 0, 0, bystanders(pat, f),
           [[0, b"<0>aa;", [0]], [0, b"<1>bb;", [1, 0]], [0, b"<2>cc;", [0]], [0, b"<3>dd;", [0]],
            [0, b"<4>ee;", [0]]]),
        # real EISDIR at the top index, count 1, no hook
        mk(0, 1, 0, 0, 0, pat, f, 1, 1, bystanders(pat, f),
           [[2], [0, b"<0>aa;", [0]], [0, b"<1>bb;", [0]], [3], [0, b"<2>cc;", [0]], [0, b"<3>dd;", [0]],
            [0, b"<4>ee;", [0]]]),
        # crash between the shifts of a full window, restart in append mode
        mk(1, 3, 0, 0, 1, "z/a.{}.gz", "logs/cur.log", 1, 0, bystanders("z/a.{}.gz", "logs/cur.log"),
           [[0, b"<0>a;", [0]], [0, b"<1>b;", [0]], [0, b"<2>c;", [0]], [0, b"<3>d;", [2, 1, 1]],
            [0, b"<4>e;", [0]], [0, b"<5>f;", [0]], [0, b"<6>g;", [0]]]),
    ]


def cases(rng, tier):
    out = enumerated(tier) + obstacle_cases(tier) + sized_obstacle_cases(tier) + dirobst_cases(tier) + fsize_cases(rng, tier)
    n_rand = 400 if tier == "quick" else 30000
    for _ in range(n_rand):
        out.append(random_case(rng))
    return out


# --------------------------------------------------------------------------
# comparison with the model + direct oracle

def _lst(l):
    return sorted((bytes(p), bytes(cn)) for p, cn in l)


def _canon(v):
    return [[e[0], [_lst(x) for x in e[1]], _lst(e[2])] for e in v]


def _diff_dirs(a, m):
    da, dm = dict(a), dict(m)
    diff = sorted(p for p in set(da) | set(dm) if da.get(p) != dm.get(p))
    return ", ".join("%s: impl %r model %r" % (p.decode("utf-8", "replace"), da.get(p), dm.get(p)) for p in diff[:3])


def model_lines(ctx, cases, lines, impl_lines):
    """a real obstacle at step k (fault kind 4) is, for the model, a step that fails before any effect (kind 1)"""
    vc = ctx["vc"]
    out = []
    for c, ln in zip(cases, lines):
        if any(o[0] == 0 and o[2][0] == 4 for o in c[10]):
            c = c[:10] + [[[0, o[1], [1, o[2][1]]] if (o[0] == 0 and o[2][0] == 4) else o for o in c[10]]]
            ln = vc.show(c)
        out.append(ln)
    return out


def compare(case, impl, model):
    b, c, limit, pre, gz, pattern, file, mode0, nohook, init, ops = case
    if isinstance(impl, (bytes, bytearray)):
        return "the real appender panicked/aborted (%r); model: %s" % (
            bytes(impl), "panic" if isinstance(model, (bytes, bytearray)) else "no panic")
    if isinstance(model, (bytes, bytearray)):
        return "model predicts a panic, impl does not"
    try:
        ci, cm = _canon(impl), _canon(model)
    except Exception:
        return "malformed result"
    if len(ci) != len(ops) + 1 or len(cm) != len(ops) + 1:
        return "wrong number of entries: impl %d model %d ops %d" % (len(ci), len(cm), len(ops))
    explore = is_exploration(case)
    d = direct_oracle(case, ci, explore)
    if d:
        return d
    if explore:
        # OS write error half-way through a step: outside the model, direct oracle only
        for i, o in enumerate(ops):
            if o[0] == 0 and o[2][0] == 3:
                STATS["efbig_appends"] += 1
                if ci[i + 1][0] != 1:
                    return ("op %d %s: the archive cannot fit under the file-size limit, yet the append "
                            "returned Ok" % (i, _opd(o)))
        return None
    for i, (a, m) in enumerate(zip(ci, cm)):
        what = "initial build" if i == 0 else "op %d %s" % (i - 1, _opd(ops[i - 1]))
        if a[0] != m[0]:
            return "%s: append returned %s, model %s" % (what, ["Ok", "Err"][a[0]], ["Ok", "Err"][m[0]])
        if len(a[1]) != len(m[1]):
            return "%s: %d hook calls, model %d" % (what, len(a[1]), len(m[1]))
        for k, (ia, im) in enumerate(zip(a[1], m[1])):
            if ia != im:
                return "%s: directory at hook call %d differs from exec_prefix %d: %s" % (what, k, k, _diff_dirs(ia, im))
        if a[2] != m[2]:
            return "%s: directory after the op differs: %s" % (what, _diff_dirs(a[2], m[2]))
    return None


def is_exploration(case):
    return any(o[0] == 0 and o[2][0] == 3 for o in case[10])


def _parse_file(content, recs):
    """content -> list of record ids, or None when it is not a concatenation of whole records"""
    ids = []
    pos = 0
    while pos < len(content):
        if content[pos:pos + 1] != b"<":
            return None
        e = content.find(b">", pos)
        if e < 0:
            return None
        try:
            i = int(content[pos + 1:e])
        except ValueError:
            return None
        if i not in recs or content[pos:pos + len(recs[i])] != recs[i]:
            return None
        ids.append(i)
        pos += len(recs[i])
    return ids


def _read(listing, ctxo, recs):
    """(ids per managed file oldest..newest incl. active last, ids of top archive, ids of active) or error str"""
    slot_paths, pre_plain, gz, filep, tolerant = ctxo
    d = dict(listing)
    files = []
    top_ids = []
    for n, p in enumerate(slot_paths):
        if p in d:
            content = d[p]
            if gz and content[:2] == b"\x1f\x8b":      # (a pre-existing archive may be plain text)
                content = content[2:]
            elif gz and not pre_plain and not tolerant:
                return "archive %s is not a complete gzip stream: %r" % (p.decode(), content)
            ids = _parse_file(content, recs)
            if ids is None and tolerant:
                # a damaged archive (the failed compress step leaves a truncated gzip stream behind):
                # it counts for nothing; what it should have held must be intact elsewhere
                STATS["damaged_archives_seen"] += 1
                if n == 0:
                    top_ids = []
                continue
            if ids is None:
                return "archive %s does not consist of whole records: %r" % (p.decode(), content)
            files.append(ids)
            if n == 0:
                top_ids = ids
    act = []
    if filep in d:
        act = _parse_file(d[filep], recs)
        if act is None:
            return "active file does not consist of whole records: %r" % d[filep]
    files.append(act)
    return files, top_ids, act


def direct_oracle(case, ci, tolerant=False):
    b, c, limit, pre, gz, pattern, file, mode0, nohook, init, ops = case
    # record table: initial managed contents first (oldest = highest index), then appended records
    recs = {}
    acked = set()
    names = {name_of(pattern, i): i for i in range(b, b + c)}
    slot_paths = [name_of(pattern, i).encode() for i in range(b + c - 1, b - 1, -1)]
    # pre-existing archives are plain text; they stay plain while they move up the window
    pre_plain = any((p if isinstance(p, str) else p.decode()) in names for p, _ in init)
    ctxo = (slot_paths, pre_plain, gz, file.encode(), tolerant)
    cache = {}

    def tag(content):
        e = content.find(b">")
        return int(content[1:e])
    for p, content in init:
        p = p if isinstance(p, str) else p.decode()
        if p in names or p == file:
            if not (p == file and not mode0):
                recs[tag(content)] = bytes(content)
                acked.add(tag(content))
    discarded = set()
    prev = None            # (present ids, top ids, active ids)
    for i, ent in enumerate(ci):
        op = ops[i - 1] if i > 0 else None
        if op is not None and op[0] == 0:
            rid = tag(op[1])
            recs[rid] = bytes(op[1])
        states = [(im, "hook call %d" % k) for k, im in enumerate(ent[1])] + [(ent[2], "after")]
        died = op is not None and op[0] == 0 and op[2][0] == 2
        trunc_now = (op is not None and ((op[0] == 1 and not op[1]) or (died and not op[2][2])))
        for (lst, where) in states:
            what = "initial build" if i == 0 else "op %d %s, %s" % (i - 1, _opd(op), where)
            key = (tuple(lst), len(recs))
            r = cache.get(key)
            if r is None:
                r = cache[key] = _read(lst, ctxo, recs)
            if isinstance(r, str):
                return what + ": " + r
            files, top_ids, act = r
            seq = [x for f in files for x in f]
            STATS["oracle_states"] += 1
            if any(x >= y for x, y in zip(seq, seq[1:])):
                return "%s: records out of order / duplicated reading oldest archive -> active: %r" % (what, seq)
            final = where == "after"
            if final and op is not None and op[0] == 0 and ent[0] == 0:
                acked.add(tag(op[1]))
            if final and trunc_now:
                hi = max([x for f in files[:-1] for x in f], default=-10 ** 9)
                discarded |= {x for x in recs if x > hi and x not in seq}
            present = set(seq)
            need = [x for x in acked if x not in discarded]
            if seq:
                missing = [x for x in need if x > seq[0] and x not in present]
                if missing:
                    return "%s: acknowledged record(s) %r missing inside the retained stream %r" % (what, sorted(missing), seq)
            if need and max(need) not in present:
                return "%s: the newest acknowledged record %d is gone (retained: %r)" % (what, max(need), seq)
            if prev is not None:
                lost = prev[0] - present
                if final and trunc_now:
                    lost -= discarded
                if lost and lost != set(prev[1]):
                    return ("%s: record(s) %r disappeared in one step although the top-index archive held %r"
                            % (what, sorted(lost), prev[1]))
            prev = (present, top_ids, act)
    return None


def _opd(o):
    if o[0] == 0:
        k = o[2]
        if k[0] == 0:
            return "append %r" % bytes(o[1])
        if k[0] == 1:
            return "append %r with Err at hook call %d" % (bytes(o[1]), k[1])
        if k[0] == 3:
            return "append of %d bytes under RLIMIT_FSIZE=%d" % (len(o[1]), k[1])
        if k[0] == 4:
            return "append %r with a real obstacle (non-empty directory) at the destination of step %d" % (bytes(o[1]), k[1])
        return "append %r dying at hook call %d, fresh appender(append=%s)" % (bytes(o[1]), k[1], bool(k[2]))
    if o[0] == 1:
        return "restart(append=%s)" % bool(o[1])
    if o[0] == 4:
        return "slot %d's directory becomes a %s" % (o[2], "dangling symlink" if o[1] == 0 else "regular file")
    if o[0] == 5:
        return "slot directory obstacle removed"
    return "obstacle on" if o[0] == 2 else "obstacle off"


def nontrivial(c):
    ops = c[10]
    return any((o[0] == 0 and o[2][0] != 0) or o[0] in (2, 4) for o in ops)


def classify(c):
    b, cnt, limit, pre, gz, pattern, file, mode0, nohook, init, ops = c
    kinds = set()
    for o in ops:
        if o[0] == 0 and o[2][0] == 1:
            kinds.add("fault")
        if o[0] == 0 and o[2][0] == 2:
            kinds.add("crash")
        if o[0] == 0 and o[2][0] == 4:
            kinds.add("real-fault")
        if o[0] == 0 and o[2][0] == 3:
            kinds.add("efbig(exploration)")
        if o[0] == 2:
            kinds.add("eisdir" + ("-nohook" if nohook else ""))
        if o[0] == 4:
            kinds.add("slotdir-" + ("symlink" if o[1] == 0 else "file") + ("-nohook" if nohook else ""))
    return "count=%d %s %s%s %s" % (cnt, "pre" if pre else "post", "append" if mode0 else "truncate",
                                    " gz" if gz else "", "+".join(sorted(kinds)) or "plain")


def describe(c):
    b, cnt, limit, pre, gz, pattern, file, mode0, nohook, init, ops = c
    return {"base": b, "count": cnt, "trigger": ("pre-processing len > %d" if pre else "SizeTrigger(%d)") % limit,
            "pattern": pattern, "file": file, "builder_append": bool(mode0), "hook_installed": not nohook,
            "initial_files": [p if isinstance(p, str) else p.decode() for p, _ in init],
            "ops": [_opd(o) for o in ops]}


def run_impl(ctx, cases, lines):
    """the real crate, in 4 parallel worker processes (each case has its own temp dir = the
    worker's cwd), temp dirs on tmpfs when available"""
    import concurrent.futures
    import os
    vc = ctx["vc"]
    env = dict(vc.ENV)
    if os.path.isdir("/dev/shm") and os.access("/dev/shm", os.W_OK):
        env["TMPDIR"] = "/dev/shm"
    nw = 4
    chunks = [lines[i::nw] for i in range(nw)]
    with concurrent.futures.ThreadPoolExecutor(nw) as ex:
        res = list(ex.map(lambda ch: vc.run_lines([ctx["vh"]], ch, timeout_per_batch=600, env=env), chunks))
    out = [None] * len(lines)
    for w in range(nw):
        out[w::nw] = res[w]
    return out


def extra_checks(ctx, cases, impl_lines, model_lines):
    """coverage bookkeeping only (the oracles run inside compare)"""
    vc = ctx["vc"]
    for case, il in zip(cases, impl_lines):
        try:
            iv = vc.parse(il)
        except Exception:
            continue
        if not isinstance(iv, list):
            continue
        ops = case[10]
        dob = False
        for i, ent in enumerate(iv[1:]):
            o = ops[i]
            if o[0] in (4, 5):
                dob = o[0] == 4
            if dob and o[0] == 0 and ent[0] == 1:
                STATS["slotdir_failures"] += 1
                continue
            STATS["images"] += len(ent[1])
            if o[0] == 0 and ent[0] == 0 and len(ent[1]) == case[1] and not case[8]:
                STATS["rotations_completed"] += 1
            if o[0] == 0:
                if o[2][0] == 1 and ent[0] == 1 and len(ent[1]) == o[2][1] + 1:
                    STATS["faults_hit"] += 1
                if o[2][0] == 2 and ent[0] == 1 and len(ent[1]) == o[2][1] + 1:
                    STATS["crash_images"] += 1
                if o[2][0] == 0 and ent[0] == 1:
                    STATS["real_eisdir_failures"] += 1
    # "every chunk of acknowledged data the completed rotation retains remains intact" also when a step cannot be a
    # rename: archives on ANOTHER file system are moved by copy + delete, compressed ones by stream copy (C05's
    # histories with the archive directory behind a symbolic link to another mount, records of 1 byte .. 70 KB)
    from gen import xcheck
    return xcheck.borrow(ctx, "C05", "a rotation step that has to copy (archives on another file system) keeps the data whole",
                         lambda c: isinstance(c[1], list) and len(c[1]) > 4 and c[1][0] == 1 and c[1][4] == 3, n=120, seed_salt=71)


def extra_coverage(ctx):
    return {"observed": dict(STATS)}
