"""C01 — routing: a record reaches exactly the appenders of its logger chain.
case: ( (appname ...) (rootlevel (appname ...)) ((name level additive (appname ...)) ...)
        ((target level) ...) (failing-appender-index ...) )
result: per probe the appender indices whose append was called."""
import itertools

RULE = ("component alphabet includes '-', '_', '.', digits, upper/lower-case pairs, a space and non-ASCII "
        "letters; every logger name is also probed under its spelling variants ('-'<->'_', case, '.'<->'::', "
        "added/removed space), which routing must keep apart.  structured sweep: every subset of <= 3 logger names from a pool of 12 names over components "
        "{a,b,ab,''} up to depth 3 (incl. a leading '::', textual-but-not-component prefixes, implied "
        "intermediates), plus every subset of <= 2 names from a spelling pool (my-app/my_app, App/app, a.b, "
        "a::b-c/a::b_c, 'x y', ñ/Ñ, a1, ...), several declaration orders each, every additive combination, levels from "
        "{Off,Warn,Trace}+random, 2 appenders with random (repeated) attachments; then random configs with "
        "up to 12 loggers, depth <= 6, ASCII and multi-byte components, up to 4 appenders.  Every config is "
        "probed with every logger name, its parent, a child, the textual sibling (name+'x', name minus a "
        "byte), and stray-colon targets ('', ':', '::', 'a:', 'a:::b', '::a', 'a::', ...) at all 5 levels. "
        "In about half of the cases a random non-empty subset of the appenders returns Err after recording "
        "the call (fault injection: deliveries must be unaffected). In about a fifth of the cases one appender, while "
        "handling each record, logs one of the probes as a record of its own through the same Logger (re-entrant "
        "log call from inside an appender): the follow-up must be routed like any record. In about a sixth of the "
        "cases some appenders are supplied as log::Log values (log4rs' blanket Append impl) whose own enabled() "
        "refuses every record: attachment and routing alone decide what they receive. "
        "non-trivial = config with >= 1 logger and a probe whose effective logger is not the root; "
        "distinct = distinct case line")
ASSUMPTIONS = ["configs are built through Config::builder().build (valid: unique names accepted by "
               "check_logger_name, all appender references resolve)",
               "delivery order among the appenders of one record is not constrained by the property and "
               "is canonicalised (multiset comparison); the Coq theorem fixes the order as well",
               "appender filters are C03's subject: no appender here has a filter; failing appenders record the "
               "call and return Err (the error-handler calls themselves are C03's subject)"]
RELEASE_TOO = True          # the cases also run through the release-profile harness (see ./check)
EXHAUSTIVE = {"quick": False, "thorough": False}

POOL = ["a", "b", "ab", "a::a", "a::b", "a::ab", "ab::a", "a::b::a", "a::b::ab", "a::a::b", "::a", "::a::b"]
STRAY = ["", ":", "::", ":::", "::::", "a:", "a:::b", "a::::b", "::a", "a::", "a::b::", ":a", "a:b", "a::b:", "x",
         "::", "::::a", "a:: b", "A", "a::B"]
LEVELS3 = [0, 2, 5]
UNI = ["é", "ß", "日本", "😀", "á"]

# spelling pool: '-' vs '_', case pairs, '.', digits, space, non-ASCII case pair - all accepted by
# check_logger_name and all DIFFERENT names for routing (segments are compared byte for byte)
POOL2 = ["my-app", "my_app", "App", "app", "my-app::db", "my_app::db", "a.b", "a::b-c", "a::b_c", "x y", "ñ", "Ñ", "a1",
         "my-app::my_mod"]
WIDE = ["my-app", "my_app", "App", "app", "a-b", "a_b", "-", "_", "a.b", ".", "a1", "1", "01", "x y", " a", "a ", "ñ", "Ñ",
        "A", "B", "aB"]


def variants(n):
    """spelling variants of a name that routing must NOT identify with it"""
    vs = [n.replace("-", "_"), n.replace("_", "-"), n.lower(), n.upper(), n.swapcase(), n.replace(".", "::"),
          n.replace(" ", ""), n + " ", " " + n, n.replace("::", "."), n.replace("1", "2")]
    return [v for v in vs if v != n]


def probes_for(names, rng, extra=()):
    ts = []
    for n in names:
        comps = n.split("::")
        ts.append(n)
        ts.append(n + "::x")
        ts.append(n + "::a")
        ts.append(n + "::a::b")
        ts.append(n + "x")
        ts.append(n + ":")
        ts.append(n + "::")
        ts.append(n + ":::a")
        if len(n) > 1:
            ts.append(n[:-1])
        ts += variants(n)
        ts += [v + "::x" for v in variants(n)[:3]]
        if len(comps) > 1:
            ts.append("::".join(comps[:-1]))
            ts.append("::".join(comps[:-1]) + "::zz")
            ts.append("::".join(comps[1:]))
    ts += STRAY
    ts += list(extra)
    seen = set()
    out = []
    for t in ts:
        if t not in seen:
            seen.add(t)
            out.append(t)
    return [[t, L] for t in out for L in range(1, 6)]


def mk_case(apps, root, loggers, rng, extra=()):
    failing = []
    if apps and rng.chance(1, 2):
        failing = [i for i in range(len(apps)) if rng.chance(1, 2)] or [rng.below(len(apps))]
    case = [list(apps), root, loggers, probes_for([l[0] for l in loggers], rng, extra), failing]
    if apps and rng.chance(1, 5):
        # re-entrancy: one appender logs one of the probes (a record of its own) while handling each record
        cand = [i for i, (t, L) in enumerate(case[3]) if L >= 1]
        # the follow-up must not itself reach the re-entrant appender more than once per level of nesting:
        # it carries message "k", which the appender does not follow up, so the recursion depth is 1
        if cand:
            case.append([rng.below(len(apps)), rng.choice(cand)])
    if apps and rng.chance(1, 6):
        # some appenders are supplied as log::Log values (blanket impl) whose own enabled() says no
        if len(case) == 5:
            case.append([])
        nest_app = case[5][0] if case[5] else None
        lk = [i for i in range(len(apps)) if rng.chance(1, 2) and i != nest_app and i not in failing]
        case.append(lk)
    return case


def rand_attach(rng, apps, maxn=3):
    return [rng.choice(apps) for _ in range(rng.below(maxn + 1))] if apps else []


def cases(rng, tier):
    out = []
    apps = ["A0", "A1"]
    # structured sweep over the pool
    for k in (1, 2, 3):
        for sub in itertools.combinations(POOL, k):
            orders = [list(sub), list(reversed(sub))] if k > 1 else [list(sub)]
            if k == 3:
                orders.append(rng.shuffle(sub))
                # children first: longest names first
                orders.append(sorted(sub, key=lambda s: -len(s)))
            for order in orders:
                flagsets = list(itertools.product((0, 1), repeat=k))
                if tier == "quick" and k == 3:
                    flagsets = [rng.choice(flagsets), (1, 1, 1), rng.choice(flagsets)]
                for flags in flagsets:
                    loggers = []
                    for n, f in zip(order, flags):
                        loggers.append([n, rng.choice(LEVELS3 + [rng.below(6)]), f, rand_attach(rng, apps)])
                    root = [rng.choice(LEVELS3), rand_attach(rng, apps, 2)]
                    out.append(mk_case(apps, root, loggers, rng))
    # spelling sweep: '-'/'_', case, '.', digit, space, non-ASCII names side by side
    for k in (1, 2):
        for sub in itertools.combinations(POOL2, k):
            for order in ([list(sub)] if k == 1 else [list(sub), list(reversed(sub))]):
                for _rep in range(1 if tier == "quick" else 3):
                    loggers = [[n, rng.choice(LEVELS3 + [rng.below(6)]), rng.below(2), rand_attach(rng, apps)]
                               for n in order]
                    root = [rng.choice(LEVELS3), rand_attach(rng, apps, 2)]
                    out.append(mk_case(apps, root, loggers, rng))
    # names and targets that collide under 64-bit FNV-1a (the hasher of the crate's maps; any cache or table keyed by
    # that hash instead of the text would confuse them): two known pairs, as whole names, as first and as last
    # component, loggers of different thresholds / attachments, probed in both orders right after one another
    for (p, q) in (("ajhhndhanpflopkj", "hcddmdbgkfljaffc"), ("7mohtcOFVz", "c1E51sSEyx")):
        for (x, y) in ((p, q), (q, p)):
            for (nx, ny) in ((x, y), (x + "::db", y + "::db"), ("svc::" + x, "svc::" + y)):
                for (lx, ly) in ((1, 5), (5, 1), (3, 3), (0, 4)):
                    loggers = [[nx, lx, 0, ["A0"]], [ny, ly, 1, ["A1"]]]
                    root = [rng.below(6), ["A0"]]
                    c = mk_case(apps, root, loggers, rng)
                    # the probes: the two targets (and a child of each) alternating, all levels
                    c[3] = [[t, L] for L in range(1, 6) for t in (nx, ny, nx + "::k", ny + "::k", ny, nx)]
                    del c[5:]
                    out.append(c)
    # a WIDE configuration: more appenders than a 16-bit index can address, the attached ones declared last
    for n_apps in ([65540] if tier == "quick" else [65540, 70000, 131080]):
        wide = ["w%d" % i for i in range(n_apps)]
        loggers = [["svc", 3, 1, [wide[65536], wide[n_apps - 1]]], ["svc::db", 5, 0, [wide[65537], wide[1]]]]
        c = [wide, [2, [wide[65538], wide[0]]], loggers,
             [[t, L] for t in ("svc", "svc::db", "svc::db::x", "other", "") for L in (1, 3, 5)], []]
        out.append(c)
    # random configs
    n_rand = 1200 if tier == "quick" else 30000
    for _ in range(n_rand):
        alpha = ["a", "b", "ab", "c"] + ([rng.choice(UNI), rng.choice(UNI)] if rng.chance(1, 3) else [])
        if rng.chance(1, 2):
            w = rng.choice(WIDE)
            alpha += [w, rng.choice([v for v in variants(w) if v and ":" not in v] or WIDE), rng.choice(WIDE)]
        na = rng.range(0, 4)
        anames = rng.shuffle(["A0", "x", "", "日", "a::b"])[:na]
        if rng.chance(1, 4):
            # appender names are opaque strings compared exactly: names that differ only by surrounding white space,
            # case or a look-alike letter are different appenders
            anames = rng.shuffle(["sink", "sink ", " sink", "\u00a0sink", "sink\t", "Sink", "s\u0131nk", "sink\u3000"])[:na]
        nl = rng.range(1, 12)
        names = []
        tries = 0
        while len(names) < nl and tries < 100:
            tries += 1
            if names and rng.chance(1, 2):
                base = rng.choice(names).split("::")
                if rng.chance(1, 3) and len(base) > 1:
                    comps = base[:-1] + [rng.choice(alpha)]
                elif rng.chance(1, 4) and len(base) > 1:
                    comps = base[:rng.range(1, len(base) - 1)]
                else:
                    comps = base + [rng.choice(alpha) for _ in range(rng.range(1, 2))]
            else:
                comps = [rng.choice(alpha) for _ in range(rng.range(1, 3))]
                if rng.chance(1, 10):
                    comps = [""] + comps
            comps = comps[:6]
            if comps == [""] or "" in comps[1:]:
                continue
            n = "::".join(comps)
            if n and n not in names:
                names.append(n)
        names = rng.shuffle(names)
        loggers = [[n, rng.below(6), 0 if rng.chance(1, 3) else 1, rand_attach(rng, anames)] for n in names]
        root = [rng.below(6), rand_attach(rng, anames, 2)]
        extra = []
        for _k in range(6):
            comps = [rng.choice(alpha + ["", ":", "x"]) for _ in range(rng.range(1, 5))]
            extra.append(rng.choice(["::", "::", ":", ":::"]).join(comps))
        out.append(mk_case(anames, root, loggers, rng, extra))
    return out


def _eff_nonroot(c):
    paths = [l[0].split("::") for l in c[2]]
    for t, _L in c[3]:
        tp = t.split("::")
        if any(tp[:len(p)] == p for p in paths):
            return True
    return False


def nontrivial(c):
    return len(c[2]) >= 1 and _eff_nonroot(c)


def classify(c):
    return "loggers=%d depth=%d" % (len(c[2]), max([len(l[0].split("::")) for l in c[2]] + [0]))


def describe(c):
    return {"appenders": c[0], "root": {"level": c[1][0], "appenders": c[1][1]},
            "loggers": [{"name": l[0], "level": l[1], "additive": bool(l[2]), "appenders": l[3]} for l in c[2]],
            "probes": len(c[3]), "failing_appenders": c[4] if len(c) > 4 else []}


def model_lines(ctx, cases, lines, impl_lines):
    """the model sees the routing case only (the re-entrant follow-up rule is judged from its probe results)"""
    vc = ctx["vc"]
    return [vc.show(c[:5]) if len(c) > 5 else ln for c, ln in zip(cases, lines)]


def compare(c, impl, model):
    if len(c) > 5 and c[5] and isinstance(impl, list) and len(impl) == len(c[3]) + 1 and isinstance(model, list) \
            and len(model) == len(c[3]):
        app, pi = c[5]
        nested = impl[-1]
        impl = impl[:-1]
        if not isinstance(nested, list) or len(nested) != len(model):
            return "nested result shape differs"
        for (t, L), got, b in zip(c[3], nested, model):
            want = sorted(model[pi] * sum(1 for x in b if x == app))
            if not isinstance(got, list) or sorted(got) != want:
                return ("target %r level %d: appender %d logs a follow-up record (target %r level %d) from inside append; "
                        "the follow-up reached appenders %r, routing prescribes %r" % (
                            t, L, app, c[3][pi][0], c[3][pi][1], got, want))
    if not isinstance(impl, list) or not isinstance(model, list) or len(impl) != len(model) or len(impl) != len(c[3]):
        return "result shape differs: impl=%r model=%r" % (str(impl)[:100], str(model)[:100])
    for (t, L), a, b in zip(c[3], impl, model):
        if not isinstance(a, list) or not isinstance(b, list) or sorted(a) != sorted(b):
            return "target %r level %d: delivered to appenders %r, routing prescribes %r" % (t, L, a, b)
    return None


_ODD_PLAIN = None


def _odd_plain_names(c):
    global _ODD_PLAIN
    import re
    if _ODD_PLAIN is None:
        _ODD_PLAIN = re.compile(r'(?m)(^\s*(- )?|[\[{,]\s*)(1|007|true|null|0x10|1e3|no|1\.5|-3|Yes)\s*(:|,|\]|$)')
    return c[5] == "render" and any(ext in ("yaml", "yml") and _ODD_PLAIN.search(text if isinstance(text, str) else bytes(text).decode("utf-8", "replace"))
                                    for ext, text in c[2])


def extra_checks(ctx, cases, impl_lines, model_lines):
    from gen import xcheck
    return (xcheck.concurrent_reconfig(ctx, "routing under concurrent reconfiguration", levels=True, plain=False)
            + xcheck.global_facade(ctx, "routing through the installed global logger and the log! macros")
            # "the configured logger" of a process started with init_file is the one the file on disk declares, also
            # when the file was replaced by a version with an OLDER modification time (rollback, cp -p, rename of a
            # staged file) or through a re-pointed symbolic link: C15's reloader histories with that action
            + xcheck.borrow(ctx, "C15", "records are routed by the configuration the file on disk declares",
                            lambda c: c[0] in (3, 6) and 13 in c[5], n=40)
            # ... and a record reaches the appenders its logger chain NAMES in the document, whatever the names read like:
            # appenders called 1, 007, true, null, 0x10, -3 written as plain YAML scalars (the names are strings)
            + xcheck.borrow(ctx, "C14", "routing to appenders whose names read like numbers or YAML keywords",
                            _odd_plain_names, n=60, seed_salt=67))
