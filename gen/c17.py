"""C17 — on-start-up trigger rolls at most once, on the first record, if big enough.
case format / comparison: gen/rollcommon.py (shared with C05, C06)."""
from gen import rollcommon as rc
from gen.rollcommon import model_lines, compare, classify, describe, extra_coverage, run_impl  # noqa: F401

RULE = ("sweep: min_size in {0,1,2,100} x pre-existing active file in {absent, 0, min-1, min, min+1 bytes} x first "
        "build in append/truncate mode x rollers {delete, window(base 0/1, count 0..3, plain/.gz), window with the "
        "archives on ANOTHER file system} (in a sixth of the append-mode cases the configured log path is a SYMBOLIC LINK "
        "to the file with the pre-existing content) x histories: "
        "1-5 appends; appends + restart (either mode) + appends (a second lifetime over the files left behind); and a "
        "burst of 8 barrier-released threads issuing the first appends followed by sequential appends; "
        "for half of the combinations also a history whose first record(s) hit a roller set to FAIL (Roll::roll "
        "returns Err before touching anything): the request must not be repeated on later records; "
        "16 (thorough 24) single lifetimes of 300 and 600 appends (pre-existing file below and above min_size, delete "
        "and window rollers). "
        "non-trivial = at least one append; distinct = distinct case line")
ASSUMPTIONS = list(rc.COMMON_ASSUMPTIONS)
RELEASE_TOO = True          # the cases also run through the release-profile harness (see ./check)
EXHAUSTIVE = {"quick": False, "thorough": False}


def corpus():
    return [
        [[1, 2], [1, 0, 2, 0], [1, b"abc"], 1,
         [[0, [b"1"]], [0, [b"2"]], [1, 1], [0, [b"3"]], [1, 1], [0, [b"4"]]]],
        [[1, 0], [1, 1, 1, 1], [1, b"a"], 0, [[0, [b"1"]]]],
        [[1, 1], [1, 0, 1, 0], [1, b"a"], 1, [[7, [b"1"]], [0, [b"2"]], [0, [b"3"]]]],
    ]


def rollers():
    out = [[0]]
    for b in (0, 1):
        for c in (0, 1, 2, 3):
            for gz in (0, 1):
                out.append([1, b, c, gz])
    # archives on another file system (a symlinked directory): rename is refused, move_file copies + deletes
    for c in (1, 2):
        for gz in (0, 1):
            out.append([1, 0, c, gz, 3, 0])
    return out


def cases(rng, tier):
    out = []
    R = rollers()
    reps = 1 if tier == "quick" else 6
    for _ in range(reps):
        for m in (0, 1, 2, 100):
            pres = [None, 0] + [p for p in (m - 1, m, m + 1) if p > 0]
            for pre in pres:
                for a0 in (1, 0):
                    for rl in R:
                        prev = [0] if pre is None else [2 if (a0 == 1 and rng.chance(1, 6)) else 1, rc.rec_bytes(rng, "pre", pre)]
                        kind = rng.below(4)
                        ops = []
                        if kind == 3:
                            nthreads = 8
                            ops.append([2, [[rc.chunked(rng, rc.rec_bytes(rng, "t%d.%d" % (t, r), rng.range(3, 9)))
                                             for r in range(rng.range(1, 2))] for t in range(nthreads)]])
                        for j in range(rng.range(1, 5)):
                            ops.append(rc.op_append(rng, "a%d" % j, rng.choice([0, 1, 2, 5, m % 120, 7])))
                        if kind in (1, 2):
                            ops.append([1, rng.choice([1, 1, 0])])
                            for j in range(rng.range(1, 3)):
                                ops.append(rc.op_append(rng, "b%d" % j, rng.choice([0, 1, 3, m % 120])))
                            if kind == 2:
                                ops.append([1, 1])
                                ops.append(rc.op_append(rng, "c", rng.range(0, 4)))
                        out.append([[1, m], rl, prev, a0, ops])
                        # the same start-up with a roller that FAILS on the first record(s), then further records
                        if rng.chance(1, 2):
                            ops2 = [[rng.choice([7, 12]), rc.chunked(rng, rc.rec_bytes(rng, "f%d" % j, rng.choice([0, 1, 3, 7])))]
                                    for j in range(rng.range(1, 2))]
                            for j in range(rng.range(1, 4)):
                                ops2.append(rc.op_append(rng, "g%d" % j, rng.choice([0, 1, 2, 5, m % 120])))
                            if rng.chance(1, 3):
                                ops2.append([1, rng.choice([1, 1, 0])])
                                ops2.append([rng.choice([7, 12]) if rng.chance(1, 2) else 0,
                                             rc.chunked(rng, rc.rec_bytes(rng, "h", rng.range(0, 4)))])
                                ops2.append(rc.op_append(rng, "i", rng.range(0, 4)))
                            out.append([[1, m], rl, prev, a0, ops2])
    # long lifetimes: 300 and 600 consultations of ONE trigger instance (a narrow call counter would wrap)
    for n in (300, 600):
        for m, presz in ((2, 1), (2, 5), (0, 0), (100, 150)):
            for rl in ([0], [1, 0, 2, 0], [1, 1, 1, 1]) if tier == "thorough" else ([0], [1, 1, 2, rng.below(2)]):
                ops = [rc.op_append(rng, "%d" % j, rng.choice([0, 1, 2, 3])) for j in range(n)]
                out.append([[1, m], rl, [1, rc.rec_bytes(rng, "pre", presz)], 1, ops])
    return out


def nontrivial(c):
    return c[0][0] == 1 and any(o[0] in (0, 2, 7) for o in c[4])


def extra_checks(ctx, cases_, impl_lines, model_lines_):
    """an on-start-up trigger DECLARED in a configuration document (min_size given, omitted = 1, zero): C14's
    renderings with such a trigger, behaviour compared with the programmatic configuration"""
    from gen import xcheck

    def has_onstartup(c):
        try:
            from gen import c14
            doc = c14.dec_tree(c[0])
            apps = doc.get("appenders") or {}
            return c[5] == "render" and any(isinstance(a, dict) and isinstance(a.get("policy"), dict)
                                            and (a["policy"].get("trigger") or {}).get("kind") == "onstartup"
                                            for a in apps.values())
        except Exception:
            return False
    res = xcheck.borrow(ctx, "C14", "an on-start-up trigger declared in a configuration document", has_onstartup, n=120)
    if res:
        return res
    # "the pre-existing content becomes the newest archive" - at the place the pattern names at the time of the roll
    # (the first record), also when the process has changed its working directory since the roller was built
    res = xcheck.borrow(ctx, "C07", "the start-up roll puts the archive where the pattern says at that moment",
                        lambda c: any(isinstance(o, list) and o and o[0] == 4 for o in c[8]), n=120, seed_salt=47)
    if res:
        return res
    # ... where the pattern / the appender's path names that place through $ENV{..} references (names and values with
    # non-ASCII characters included): C19's rolling-appender and roller call sites
    res = xcheck.borrow(ctx, "C19", "the archive / log location named through $ENV{..} references",
                        lambda c: c[0] % 10 in (1, 2) and c[2] and any(any(x > 127 for x in kv[0]) for kv in c[2]), n=150, seed_salt=73)
    if res:
        return res
    # ... and a pattern whose file name is only an extension-like word (`arch/{}/.gz`: no extension, so no
    # compression) or carries the index in a directory: C07's pattern shapes
    return xcheck.borrow(ctx, "C07", "the archive holds the old content as the pattern's real extension says",
                         lambda c: isinstance(c[4], (str, bytes)) and (b"/.gz" in (c[4] if isinstance(c[4], bytes) else c[4].encode()) or b"/.zst" in (c[4] if isinstance(c[4], bytes) else c[4].encode())),
                         n=150, seed_salt=79)
