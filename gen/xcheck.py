"""Cross-property scenarios: a property whose text also speaks about concurrent use can borrow another
property's harness + model + judge for a few cases (run as `extra_checks` of the borrowing check)."""


def concurrent_reconfig(ctx, what, levels=True, plain=True):
    """C15's stress scenario (4 logging threads against 2 threads swapping configurations through
    Handle::set_config; judged by C15's compare against C15's model): no panic, and every record is
    routed - threshold AND fan-out - by ONE configuration."""
    vc = ctx["vc"]
    from gen import c15
    vc.coq_build(["Run/C15.vo"])
    drv = vc.build_driver("C15")
    vh = vc.build_harness("c15")
    rng = vc.Rng(ctx["seed"] * 1000 + 77)
    cases = []
    if plain:
        cases.append(c15.stress_case(rng, "quick", 0))
    if levels:
        cases.append(c15.stress_levels_case(rng, "quick", 1))
    lines = [vc.show(c) for c in cases]
    impl = vc.run_lines([vh], lines, timeout_per_batch=300)
    model = vc.run_lines([drv], lines, timeout_per_batch=300, crash_marker="xmodelcrash")
    res = []
    for c, ln, il, ml in zip(cases, lines, impl, model):
        try:
            mv = vc.parse(ml)
        except Exception:
            raise vc.Broken("corr:C15/model-run", "C15 model failed on a stress case: %s" % ml[:200])
        try:
            iv = vc.parse(il)
        except Exception:
            iv = b"unparsable:" + il[:100].encode()
        d = c15.compare(c, iv, mv)
        if d:
            res.append(("%s (C15 stress scenario): %s" % (what, d),
                        {"case_line": ln, "run_with": "./check C15 --replay <this file>", "impl": vc.jsonable(iv)}))
    ctx.setdefault("xcheck", {})["concurrent_reconfig_cases"] = len(cases)
    return res
