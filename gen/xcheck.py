"""Cross-property scenarios: a property whose text also speaks about concurrent use can borrow another
property's harness + model + judge for a few cases (run as `extra_checks` of the borrowing check)."""


def concurrent_reconfig(ctx, what, levels=True, plain=True):
    """C15's stress scenario (4 logging threads against 2 threads swapping configurations through
    Handle::set_config; judged by C15's compare against C15's model): no panic, and every record is
    routed - threshold AND fan-out - by ONE configuration."""
    vc = ctx["vc"]
    from gen import c15
    vc.coq_build(["Run/C15.vo"])
    drv = vc.build_driver("C15")
    vh = vc.build_harness("c15")
    rng = vc.Rng(ctx["seed"] * 1000 + 77)
    cases = []
    if plain:
        cases.append(c15.stress_case(rng, "quick", 0))
    if levels:
        cases.append(c15.stress_levels_case(rng, "quick", 1))
    lines = [vc.show(c) for c in cases]
    impl = vc.run_lines([vh], lines, timeout_per_batch=300)
    model = vc.run_lines([drv], lines, timeout_per_batch=300, crash_marker="xmodelcrash")
    res = []
    for c, ln, il, ml in zip(cases, lines, impl, model):
        try:
            mv = vc.parse(ml)
        except Exception:
            raise vc.Broken("corr:C15/model-run", "C15 model failed on a stress case: %s" % ml[:200])
        try:
            iv = vc.parse(il)
        except Exception:
            iv = b"unparsable:" + il[:100].encode()
        d = vc.safe_compare(c15, c, iv, mv)
        if d:
            res.append(("%s (C15 stress scenario): %s" % (what, d),
                        {"case_line": ln, "run_with": "./check C15 --replay <this file>", "impl": vc.jsonable(iv)}))
    ctx.setdefault("xcheck", {})["concurrent_reconfig_cases"] = len(cases)
    return res


def global_facade(ctx, what, n=36):
    """C02's histories (init_config, then set_config steps, through the process-global logger and the real
    log! macros, one child process each; judged by C02's compare against C02's model)."""
    vc = ctx["vc"]
    from gen import c02
    vc.coq_build(["Run/C02.vo"])
    drv = vc.build_driver("C02")
    vh = vc.build_harness("c02")
    rng = vc.Rng(ctx["seed"] * 1000 + 202)
    allc = c02.cases(rng, "quick")
    multi = [c for c in allc if len(c[0]) >= 3]
    pick = multi[:: max(1, len(multi) // n)][:n]
    lines = [vc.show(c) for c in pick]
    sub = {"vc": vc, "vh": vh, "drv": drv, "seed": ctx["seed"], "tier": "quick", "pid": "C02"}
    impl = c02.run_impl(sub, pick, lines)
    ml = c02.model_lines(sub, pick, lines, impl) if hasattr(c02, "model_lines") else lines
    model = vc.run_lines([drv], ml, timeout_per_batch=300, crash_marker="xmodelcrash")
    res = []
    for c, ln, il, mo in zip(pick, lines, impl, model):
        try:
            mv = vc.parse(mo)
        except Exception:
            raise vc.Broken("corr:C02/model-run", "C02 model failed on a history: %s" % mo[:200])
        try:
            iv = vc.parse(il)
        except Exception:
            iv = b"unparsable:" + il[:100].encode()
        d = vc.safe_compare(c02, c, iv, mv)
        if d:
            res.append(("%s (C02 history through the global logger): %s" % (what, d),
                        {"case_line": ln, "run_with": "./check C02 --replay <this file>"}))
            break
    ctx.setdefault("xcheck", {})["global_facade_histories"] = len(pick)
    return res


def borrow(ctx, other, what, select=None, n=30, seed_salt=7):
    """Run up to `n` quick-tier cases of property `other` (filtered by `select`) through THAT property's
    harness, model and judge; violations are reported under the borrowing property with `what` as the
    reason why they matter to it.  Cases inside an open known-finding class of `other` are ignored."""
    import importlib
    vc = ctx["vc"]
    mod = importlib.import_module("gen." + other.lower())
    vc.coq_build(["Run/%s.vo" % other])
    drv = vc.build_driver(other)
    sub = {"pid": other, "tier": "quick", "seed": ctx["seed"], "drv": drv, "vc": vc, "known": ctx.get("known", {})}
    if hasattr(mod, "prepare"):
        mod.prepare(sub)
    else:
        sub["vh"] = vc.build_harness(other.lower())
    rng = vc.Rng(ctx["seed"] * 1000 + seed_salt)
    allc = list(mod.corpus()) if hasattr(mod, "corpus") else []
    allc += list(mod.cases(rng, "quick"))
    if select is not None:
        allc = [c for c in allc if select(c)]
    pick = allc[:: max(1, len(allc) // n)][:n] if allc else []
    lines = [vc.show(c) for c in pick]
    if hasattr(mod, "run_impl"):
        impl = mod.run_impl(sub, pick, lines)
    else:
        impl = vc.run_lines([sub["vh"]], lines, timeout_per_batch=600)
    ml = mod.model_lines(sub, pick, lines, impl) if hasattr(mod, "model_lines") else lines
    model = vc.run_lines([drv], ml, timeout_per_batch=600, crash_marker="xmodelcrash")
    res = []
    for c, ln, il, mo in zip(pick, lines, impl, model):
        try:
            mv = vc.parse(mo)
        except Exception:
            raise vc.Broken("corr:%s/model-run" % other, "%s model failed on a borrowed case: %s" % (other, mo[:200]))
        try:
            iv = vc.parse(il)
        except Exception:
            iv = b"unparsable:" + il[:100].encode()
        d = vc.safe_compare(mod, c, iv, mv)
        if d is None:
            continue
        kf = mod.known_finding(c, iv, mv) if hasattr(mod, "known_finding") else None
        if kf is not None and ctx.get("known", {}).get(kf, {}).get("status") == "open":
            continue
        res.append(("%s (%s case): %s" % (what, other, d),
                    {"case_line": ln, "run_with": "./check %s --replay <this file>" % other}))
        break
    ctx.setdefault("xcheck", {})["borrowed_%s_cases" % other] = ctx.get("xcheck", {}).get("borrowed_%s_cases" % other, 0) + len(pick)
    return res
