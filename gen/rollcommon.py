"""Shared by gen/c05.py, gen/c06.py, gen/c17.py (rolling file appender histories).

case: ( trigger roller pre a0 ops )   -- see harness/src/rolling_c05.rs
  trigger: [0, limit] | [1, min_size] | [2, pre, [thr...]]
         | [3, n, modulate, t0]  the real TimeTrigger (n seconds) under the hook clock starting at t0;
           the MODEL is given the oracle trigger [2, 1, script] with the decisions predicted by
           `time_script` from the trigger's documented schedule (the schedule itself is C16's subject)
  roller : [0] | [1, base, count, gz]     gz: 0 plain / 1 gzip / 2 zstd (one abstract codec in the model)
  pre    : [0] | [1, bytes] | [2, bytes] the log path is a symbolic link to a file holding the bytes
  roller : [1, base, count, gz, shape, bg]  shape 3 = archives in a directory that is a symbolic link to ANOTHER
           file system (rename refuses with EXDEV: move_file's copy+delete fall-back, compress across mounts);
           shape 0/1/2 = index in file name / in directory and file name /
           in directory only; bg = 1: case for the `background_rotation` build (quiescence waits, pending snapshot)
  ops    : [0, [chunk...]] | [1, a] | [2, [[rec...]...]]  (burst of threads) | [3, t] (set the hook clock)
           | [4, a] hot restart (old instance stays alive) | [5, [chunk...]] append through the old instance
           | [6] drop the old instance | [7, [chunk...]] append while the roller is set to fail
           | [12, [chunk...]] append while the roller is set to ROTATE AND THEN report failure
           | [10, [chunk...], record, via] append whose encoder (via 1) or roller (via 2) appends `record` to a SECOND
             rolling appender (side/cur.log, SizeTrigger(10), window of 2) from inside the call; for the model of the
             main appender an ordinary append; the second appender is judged by the stream / size oracles
           | [11, [chunk...]] append whose encoder writes the chunks, then returns Err (always followed by a plain append;
             post-processing triggers only): no consultation, Err, nothing on disk yet; the model sees the bytes as
             the head of the next record (they are flushed and COUNTED with it)
           | [8] newest archive slot becomes a symlink to /dev/full (real ENOSPC on the archive write) | [9] heal;
             appends between 8 and 9 are, for the model and the oracles, appends with a failing roller (kind 7)
impl/model result: one entry per op (entry 0 = initial build):
  [ [[shown, disk, rolled]...], [[kind, idx, bytes]...], errors, (burst: order) ]
The model cannot predict a thread schedule: `model_lines` replaces each burst by
the appends in the order the real encoder was entered (lock order), after
`compare` has checked that this order is a merge of the threads' sequences.
"""

NEVER = 2 ** 64          # threshold that no u64 length reaches
STATS = {"rotations": 0, "consultations": 0, "bursts": 0, "stream_checks": 0}

FILL = ["a", "Z", "0", " ", "\n", "é", "ß", "€", "あ", "😀", "\t", "x"]


def rec_bytes(rng, ident, size):
    """a record of exactly `size` bytes (best effort: tag first, then filler incl.
    multi-byte UTF-8 text, truncated at byte level), tagged so that records are distinct"""
    tag = ("<%s>" % ident).encode()
    out = bytearray(tag[:size])
    while len(out) < size:
        out += rng.choice(FILL).encode("utf-8")
    return bytes(out[:size])


def chunked(rng, b):
    """split into encoder write chunks at random byte positions (possibly empty chunks)"""
    if len(b) == 0:
        return [] if rng.chance(1, 2) else [b""]
    n = rng.choice([1, 1, 1, 2, 3])
    cuts = sorted(rng.below(len(b) + 1) for _ in range(n - 1))
    out, last = [], 0
    for c in cuts + [len(b)]:
        out.append(b[last:c])
        last = c
    return out


def op_append(rng, ident, size):
    return [0, chunked(rng, rec_bytes(rng, ident, size))]


def rec_of(chunks):
    return b"".join(bytes(c) for c in chunks)


def keep_of(roller):
    return roller[2] if roller[0] == 1 else 0


def base_of(roller):
    return roller[1] if roller[0] == 1 else 0


# --------------------------------------------------------------------------
# model input: bursts replaced by the observed serialisation

def time_script(case):
    """decisions of the real TimeTrigger (interval n seconds, optional modulate, no random delay) for the
    consultations of the case, one per appended record, as thresholds of the model's oracle trigger
    (0 = fire, NEVER = do not fire).  TimeTrigger::new schedules next = trunc_to_second(now) + inc with
    inc = n (plain) or n - second_of_minute % n (modulate); trigger() fires iff now >= next and then
    reschedules from now.  A restart builds a new trigger.  All consultations of a burst see one clock."""
    trig, roller, pre, a0, ops = case
    n, mod, t0 = trig[1], trig[2], trig[3]

    def nxt(t):
        return t + ((n - (t % 60) % n) if mod else n)
    clock, next_ = t0, nxt(t0)
    script = []
    for o in ops:
        if o[0] == 3:
            clock = o[1]
        elif o[0] == 1:
            next_ = nxt(clock)
        else:
            k = 1 if o[0] in (0, 5, 7, 10, 12) else sum(len(t) for t in o[1])
            for _ in range(k):
                fire = clock >= next_
                if fire:
                    next_ = nxt(clock)
                script.append(0 if fire else NEVER)
    return script


def effective_ops(ops):
    """appends inside an archive-fault window [8]..[9] behave as appends with a failing roller"""
    out, fault = [], False
    for o in ops:
        if o[0] == 8:
            fault = True
        elif o[0] == 9:
            fault = False
        out.append([7, o[1]] if (fault and o[0] == 0) else o)
    return out


def uses_enc_machine(case):
    """histories of appends / restarts / failed-encoder appends under a post-processing trigger run, in the
    model, on the machine of coq/Model/RollingEnc.v (C06's driver), op for op"""
    trig, roller, pre, a0, ops = case
    return (any(o[0] == 11 for o in ops) and all(o[0] in (0, 1, 11) for o in ops)
            and not is_pre_trigger(trig) and trig[0] in (0, 2) and pre[0] in (0, 1) and MACHINE_FOR_ENC_FAIL[0])


MACHINE_FOR_ENC_FAIL = [False]      # set by gen/c06.py (its driver c06_run knows op 11)


def flatten_for_model(case, impl):
    trig, roller, pre, a0, ops = case
    if uses_enc_machine(case):
        # ([11, chunks, 1]: the same for the model - the harness makes the FLUSH fail (full disk) instead of the encoder)
        return [trig, roller, pre, a0, [[11, o[1]] if o[0] == 11 else o for o in ops]]
    ops = effective_ops(ops)
    if pre[0] == 2:
        pre = [1, pre[1]]              # a symlinked log path: for the model just a pre-existing file
    if trig[0] == 3:
        trig = [2, 1, time_script(case)]
    out = []
    carry = []
    for i, o in enumerate(ops):
        if o[0] in (3, 6, 8, 9):
            continue
        if o[0] == 4:
            out.append([1, o[1]])      # hot restart: for the files, a build on the same path
            continue
        if o[0] == 5:
            out.append([0, o[1]])      # append through the old instance: same O_APPEND stream
            continue
        if o[0] == 10:
            out.append([0, o[1]])      # for the main appender an ordinary append (the nested one goes elsewhere)
            continue
        if o[0] == 11:
            carry = list(o[1])         # the failed record's bytes wait in the writer's buffer ...
            continue
        if o[0] == 0 and carry:
            out.append([0, carry + list(o[1])])     # ... and reach the file, and the byte count, with the next record
            carry = []
            continue
        if o[0] != 2:
            out.append(o)
            continue
        threads = o[1]
        order = None
        try:
            order = impl[i + 1][3]
            assert valid_merge(threads, order)
        except Exception:
            order = [[t, r] for t in range(len(threads)) for r in range(len(threads[t]))]
        for t, r in order:
            out.append([0, threads[t][r]])
    return [trig, roller, pre, a0, out]


def valid_merge(threads, order):
    nxt = [0] * len(threads)
    for t, r in order:
        if not (0 <= t < len(threads)) or nxt[t] != r or r >= len(threads[t]):
            return False
        nxt[t] += 1
    return all(nxt[t] == len(threads[t]) for t in range(len(threads)))


def model_lines(ctx, cases, lines, impl_lines):
    vc = ctx["vc"]
    out = []
    for c, line, il in zip(cases, lines, impl_lines):
        if c[0][0] == 3 or c[2][0] == 2 or any(o[0] in (2, 3, 4, 5, 6, 8, 9, 10, 11) for o in c[4]):
            try:
                iv = vc.parse(il)
            except Exception:
                iv = None
            out.append(vc.show(flatten_for_model(c, iv)))
        else:
            out.append(line)
    return out


def run_impl(ctx, cases, lines):
    """the real crate, in batches of 400 cases with a 120 s limit each, so that a hang (only seen with
    defective crates: deadlock, endless loop) costs two minutes instead of the pipeline's default 15;
    after 3 hangs the remaining cases are reported as hangs without being run"""
    vc = ctx["vc"]
    out, hangs = [], 0
    for i in range(0, len(lines), 400):
        chunk = lines[i:i + 400]
        if hangs >= 3:
            out += ["xhang"] * len(chunk)
            continue
        got = vc.run_lines([ctx["vh"]], chunk, timeout_per_batch=120)
        hangs += sum(1 for g in got if g == "xhang")
        out += got
    return out


# --------------------------------------------------------------------------
# comparison + direct property oracles (independent of the model)

def _snap(s):
    return sorted([int(k), int(i), bytes(b)] for k, i, b in s)


def is_pre_trigger(trig):
    return {0: False, 1: True, 2: bool(trig[1]) if len(trig) > 1 else False, 3: True}[trig[0]]


def compare(case, impl, model):
    trig, roller, pre, a0, ops = case
    if not isinstance(impl, list) or len(impl) != len(ops) + 1:
        return "impl result has the wrong shape (panic/abort?): %r" % (impl if not isinstance(impl, list) else len(impl),)
    if not isinstance(model, list):
        return "model result has the wrong shape"
    ops = effective_ops(ops)
    keep, base = keep_of(roller), base_of(roller)
    hot = any(o[0] == 4 for o in ops)      # overlapping instances: each LogWriter.len is legitimately stale
    bg = bg_of(roller)
    # stream bookkeeping for the C05 oracle
    stream = [bytes(pre[1])] if (a0 and pre[0] in (1, 2)) else []
    stream_ok = True          # False once a truncating restart discarded data
    rolls_total = 0
    life_rolls = 0            # C17: rotation requests since the last build
    life_appends = 0
    mj = 0                    # index into model entries
    prev_snap = None
    side_stream = []          # records acknowledged by the SIDE appender (op 10), in order
    for i in range(len(ops) + 1):
        ent = impl[i]
        if not isinstance(ent, list) or len(ent) < 3:
            return "op %d: malformed impl entry" % i
        consults, snap, errors = [list(c) for c in ent[0]], _snap(ent[1]), ent[2]
        if any(len(c) != 4 for c in consults):
            return "op %d: malformed consultation entry" % i
        o = ops[i - 1] if i > 0 else [1, a0]
        # --- an append whose ENCODER fails after writing its chunks (op 11; only before a plain append, only with
        # post-processing triggers, chunks far below the 1 KiB buffer): the call returns Err before flush and policy,
        # nothing reaches the disk yet; the bytes are counted and written together with the next record
        if o[0] == 11:
            if consults:
                return "op %d: the policy was consulted although the encoder failed" % i
            if errors != 1:
                return "op %d: append returned Ok although its encoder failed" % i
            if uses_enc_machine(case):
                # the model (RollingEnc machine) has an entry for this op: same directory, no consultation, Err
                if mj >= len(model):
                    return "op %d: model produced too few entries" % i
                m_snap = _snap(model[mj][1])
                mj += 1
                if snap != m_snap:
                    return "op %d: directory after the failed-encoder append: impl %r != model %r" % (i, snap, m_snap)
                prev_snap = snap
                stream_ok = False
                STATS["failed_encodes"] = STATS.get("failed_encodes", 0) + 1
                STATS["failed_encodes_on_machine"] = STATS.get("failed_encodes_on_machine", 0) + 1
                continue
            # (the call may have re-created the active file, empty, after a rotation: get_writer)
            fresh = sorted((prev_snap or []) + [[0, 0, b""]]) if not any(e[0] == 0 for e in (prev_snap or [])) else None
            if snap != prev_snap and snap != fresh:
                return "op %d: directory changed by an append whose encoder failed (the bytes fit the buffer)" % i
            prev_snap = snap
            stream_ok = False        # from here on the file holds the fragment of an unacknowledged record
            STATS["failed_encodes"] = STATS.get("failed_encodes", 0) + 1
            continue
        # --- ops without an appender call
        if o[0] in (3, 6, 8, 9):
            if consults or errors:
                return "op %d: op without appender call produced consultations/errors" % i
            if snap != prev_snap:
                return "op %d: directory changed without an appender call" % i
            continue
        prev_snap = snap
        # --- what the model says for this op
        if o[0] == 2:
            threads = o[1]
            k = sum(len(t) for t in threads)
            order = ent[3] if len(ent) > 3 else None
            if order is None or not valid_merge(threads, order):
                return "op %d: burst order %r is not a merge of the threads' sequences (record lost/duplicated/reordered)" % (i, order)
            STATS["bursts"] += 1
            ments = model[mj:mj + k]
            mj += k
            if len(ments) != k:
                return "op %d: model produced too few entries" % i
            m_consults = [list(c) for e in ments for c in e[0]]
            m_snap = _snap(ments[-1][1]) if k else None
            m_err = sum(e[2] for e in ments)
            new_recs = [rec_of(threads[t][r]) for t, r in order]
        else:
            if mj >= len(model):
                return "op %d: model produced too few entries" % i
            m_consults, m_snap, m_err = [list(c) for c in model[mj][0]], _snap(model[mj][1]), model[mj][2]
            m_cands = model[mj][3] if len(model[mj]) > 3 else []
            mj += 1
            # background rotation: the snapshot taken right after the call returned (rotation thread
            # possibly still running) must be one of the directories the background-rotation MODEL
            # (coq/Model/RollingBg.v) can be in at that moment
            if bg and m_cands and len(ent) > 4 and ent[4] and o[0] in (0, 1):
                def canon(l):
                    return sorted((k_, idx if k_ == 1 else 0, bytes(b)) for k_, idx, b in l if k_ in (0, 1, 3))
                pend = canon(ent[4])
                cands = [canon(cd) for cd in m_cands]
                exact = pend in cands
                # The observation is a scan of a directory that the rotation thread may be changing: each
                # file is read atomically, the directory as a whole is not (vp check 8: archive 2 read, then
                # renamed to 3, then 3 read - one record seen twice).  So the judgement is per file: what was
                # read under each name is what SOME state of the model holds under that name.
                def as_map(l):
                    return {(k_, idx): b for k_, idx, b in l}
                pm, cms = as_map(pend), [as_map(cd) for cd in cands]
                ok = all(any(cm.get(nm) == pm.get(nm) for cm in cms)
                         for nm in set(pm).union(*[set(cm) for cm in cms]))
                if exact:
                    STATS["pending_exactly_a_model_state"] = STATS.get("pending_exactly_a_model_state", 0) + 1
                STATS["pending_vs_bg_model"] = STATS.get("pending_vs_bg_model", 0) + 1
                if pend != cands[-1]:
                    STATS["pending_midflight_states"] = STATS.get("pending_midflight_states", 0) + 1
                if not ok:
                    return ("op %d: directory right after the call (background rotation possibly running) %r is none of "
                            "the %d states of the background-rotation model %r" % (i, pend, len(cands), cands))
            new_recs = [rec_of(o[1])] if o[0] in (0, 5, 7, 10, 12) else []
            if o[0] in (7, 12) and m_err and is_pre_trigger(trig):
                new_recs = []          # pre-processing: the early Err return skipped the write
        if errors != m_err:
            return "op %d: %d call(s) returned an error, model %d" % (i, errors, m_err)
        sel = (lambda c: c[1:3]) if hot else (lambda c: c[0:3])
        if [sel(c) for c in consults] != [sel(c) for c in m_consults]:
            return "op %d: consultations (shown, disk, rotation requested) impl %r != model %r" % (
                i, [c[:3] for c in consults], m_consults)
        if m_snap is not None and snap != m_snap:
            return "op %d: directory impl %r != model %r" % (i, snap, m_snap)
        # --- direct oracles
        for c in consults:
            STATS["consultations"] += 1
            if not hot and c[0] != c[1]:
                return "op %d: policy was shown len %r but the file on disk has %r bytes" % (i, c[0], c[1])
            if bool(c[3]) != (bool(c[2]) and o[0] != 7):
                return "op %d: rotation requested=%r but active file gone=%r%s" % (
                    i, c[2], c[3], " (roller set to fail)" if o[0] == 7 else "")
        nreq = sum(1 for c in consults if c[2])
        nrolled = sum(1 for c in consults if c[3])
        if o[0] == 10:
            # a record handed to a SECOND rolling appender (size trigger 10 bytes, window of 2) from inside this
            # call - by the encoder (via 1) or by the roller (via 2): it is a record like any other for THAT
            # appender: acknowledged means stored, and the size trigger rolls as always
            d = side_oracle(i, o, ent, nreq, side_stream)
            if d:
                return d
        rolls_total += nrolled
        STATS["rotations"] += nrolled
        if o[0] == 7 and nreq:
            STATS["failed_rolls"] = STATS.get("failed_rolls", 0) + nreq
        if o[0] == 12 and nreq:
            STATS["rolls_failing_after_the_rotation"] = STATS.get("rolls_failing_after_the_rotation", 0) + nreq
        kind = {0: "size", 1: "startup", 2: "user", 3: "time"}[trig[0]]
        STATS["rotations_" + kind] = STATS.get("rotations_" + kind, 0) + nrolled
        if o[0] in (1, 4):
            life_rolls, life_appends = 0, 0
            if not o[1]:
                stream_ok = False
        # size trigger: rotation requested iff shown > limit; afterwards absent or <= limit
        if trig[0] == 0 and o[0] not in (1, 4):
            for c in consults:
                if bool(c[2]) != (c[0] > trig[1]):
                    return "op %d: size %d vs limit %d but rotation requested=%r" % (i, c[0], trig[1], c[2])
            act = [b for k_, _, b in snap if k_ == 0]
            if act and len(act[0]) > trig[1] and o[0] != 7:
                return "op %d: active file holds %d > limit %d bytes after the append" % (i, len(act[0]), trig[1])
        # on-start-up trigger: at most one request per lifetime, only at its first append
        if trig[0] == 1 and o[0] not in (1, 4):
            for c in consults:
                if c[2] and (life_appends > 0 or life_rolls > 0):
                    return "op %d: on-start-up trigger requested a rotation again / not on the first record" % i
                if life_appends == 0 and bool(c[2]) != (c[1] >= trig[1]):
                    return "op %d: first record, file of %d bytes, min_size %d, rotation requested=%r" % (i, c[1], trig[1], c[2])
                life_rolls += 1 if c[2] else 0
                life_appends += 1
            if o[0] in (7, 12) and errors and not consults:
                life_appends += 1
        # C05: archives oldest..newest then active = suffix of the stream at a record
        # boundary, every file made of whole records
        stream += new_recs
        if stream_ok:
            STATS["stream_checks"] += 1
            d, found = check_stream_found(snap, stream, keep, base, rolls_total)
            if d:
                return "op %d: %s" % (i, d)
            # background rotation: while rotations were pending every retained record was
            # somewhere (archive, temp file, active file)
            if bg and len(ent) > 4 and ent[4]:
                pend = [bytes(b) for k_, _, b in ent[4] if k_ in (0, 1, 3)]
                STATS["pending_snapshots"] = STATS.get("pending_snapshots", 0) + 1
                if any(k_ == 3 for k_, _, _ in ent[4]):
                    STATS["pending_with_temp_file"] = STATS.get("pending_with_temp_file", 0) + 1
                for r in stream[found:]:
                    if not any(r in f for f in pend):
                        return "op %d: while a background rotation was pending the retained record %r was in no file" % (i, r)
    if mj != len(model):
        return "model produced %d entries, expected %d" % (len(model), mj)
    return None


SIDE_LIMIT = 10


def side_oracle(i, o, ent, nreq, side_stream):
    if len(ent) < 4 or not isinstance(ent[3], list) or len(ent[3]) != 2:
        return "op %d: no observation of the side appender" % i
    fired, lst = ent[3]
    via = o[3]
    expect_fired = True if via == 1 else (nreq > 0)
    if bool(fired) != expect_fired:
        return ("op %d: the nested append to the second rolling appender (issued by the %s of this call) %s"
                % (i, "encoder" if via == 1 else "roller", "did not happen" if expect_fired else "happened without a roll"))
    if not fired:
        return None
    STATS["nested_side_appends"] = STATS.get("nested_side_appends", 0) + 1
    if fired != 1:
        return "op %d: the nested append to the second rolling appender returned Err" % i
    side_stream.append(bytes(o[2]))
    snap = sorted((k_, idx, bytes(b)) for k_, idx, b in lst)
    d, _found = check_stream_found(snap, side_stream, 2, 0, 10 ** 9)
    if d:
        return "op %d: second rolling appender (record appended from inside this call): %s" % (i, d)
    if not any(bytes(o[2]) in b for _k, _i, b in snap):
        return "op %d: the record acknowledged by the second rolling appender is in none of its files" % i
    act = [b for k_, _, b in snap if k_ == 0]
    if act and len(act[0]) > SIDE_LIMIT:
        return ("op %d: second rolling appender: active file holds %d > limit %d bytes after the nested append "
                "(no rotation)" % (i, len(act[0]), SIDE_LIMIT))
    return None


def bg_of(roller):
    return 1 if (roller[0] == 1 and len(roller) > 5 and roller[5]) else 0


def check_stream(snap, stream, keep, base, rolls_total):
    return check_stream_found(snap, stream, keep, base, rolls_total)[0]


def check_stream_found(snap, stream, keep, base, rolls_total):
    for k_, idx, _ in snap:
        if k_ in (2, 3) or (k_ == 1 and not (base <= idx < base + keep)):
            return "unexpected file in the directory: %r" % ([k_, idx],), None
    files = [b for k_, idx, b in sorted((e for e in snap if e[0] == 1), key=lambda e: -e[1])]
    files += [b for k_, _, b in snap if k_ == 0]
    got = b"".join(files)
    # longest suffix of the record stream whose concatenation is `got`
    found, total = None, 0
    for k in range(len(stream), -1, -1):
        if k < len(stream):
            total += len(stream[k])
        if total > len(got):
            break
        if total == len(got) and b"".join(stream[k:]) == got:
            found = k
    if found is None:
        return "retained files (oldest archive .. active) are not a suffix of the written records: %r vs stream %r" % (files, stream), None
    if rolls_total <= keep and found != 0:
        return "records missing although only %d rotation(s) <= count %d happened" % (rolls_total, keep), found
    # file boundaries fall on record boundaries
    cuts = set()
    pos = 0
    cuts.add(0)
    for r in stream[found:]:
        pos += len(r)
        cuts.add(pos)
    pos = 0
    for f in files:
        pos += len(f)
        if pos not in cuts:
            return "a record is split across two files (file boundary at byte %d of the retained stream)" % pos, found
    return None, found


# --------------------------------------------------------------------------

def classify(case):
    trig, roller, pre, a0, ops = case
    t = {0: "size", 1: "startup", 2: "user-pre" if len(trig) > 1 and trig[1] else "user-post", 3: "time"}[trig[0]]
    r = "delete" if roller[0] == 0 else "window%s" % (".gz" if roller[3] else "")
    if roller[0] == 1 and len(roller) > 4 and roller[4]:
        r += ".dir-idx"
    if bg_of(roller):
        r = "BG-" + r
    extra = "+burst" if any(o[0] == 2 for o in ops) else ""
    extra += "+restart" if any(o[0] == 1 for o in ops) else ""
    extra += "+hot-restart" if any(o[0] == 4 for o in ops) else ""
    extra += "+failing-roll" if any(o[0] == 7 for o in ops) else ""
    extra += "+roll-failing-after-rotation" if any(o[0] == 12 for o in ops) else ""
    extra += "+archive-ENOSPC" if any(o[0] == 8 for o in ops) else ""
    return "%s/%s%s" % (t, r, extra)


def describe(case):
    trig, roller, pre, a0, ops = case
    t = {0: lambda: "size(limit=%d)" % trig[1], 1: lambda: "on_startup(min_size=%d)" % trig[1],
         2: lambda: "scripted(%s, thresholds=%r)" % ("pre" if trig[1] else "post",
                                                      ["never" if x >= NEVER else x for x in trig[2]]),
         3: lambda: "time(%d s%s, clock starts at %d)" % (trig[1], ", modulate" if trig[2] else "", trig[3])}[trig[0]]()
    r = "delete" if roller[0] == 0 else "fixed_window(base=%d,count=%d%s%s%s)" % (
        roller[1], roller[2], ",gz" if roller[3] else "",
        ["", ",index in directory and file name", ",index in directory only", ",archives on another file system"][roller[4]] if len(roller) > 4 else "",
        ",background_rotation build" if bg_of(roller) else "")

    def opd(o):
        if o[0] == 0:
            return "append %d bytes in %d chunk(s)" % (len(rec_of(o[1])), len(o[1]))
        if o[0] == 1:
            return "restart(append=%s)" % bool(o[1])
        if o[0] == 3:
            return "clock := %d" % o[1]
        if o[0] == 4:
            return "hot restart (second appender built, old one stays in service)"
        if o[0] == 5:
            return "append %d bytes through the old instance" % len(rec_of(o[1]))
        if o[0] == 6:
            return "old instance dropped"
        if o[0] == 8:
            return "newest archive slot := symlink to /dev/full"
        if o[0] == 9:
            return "archive slot healed"
        if o[0] == 7:
            return "append %d bytes in %d chunk(s), roller set to fail" % (len(rec_of(o[1])), len(o[1]))
        if o[0] == 12:
            return "append %d bytes in %d chunk(s), roller set to rotate and THEN report failure" % (len(rec_of(o[1])), len(o[1]))
        if o[0] == 11:
            if len(o) > 2 and o[2]:
                return ("append %d bytes in %d chunk(s) while the file cannot grow (RLIMIT_FSIZE = its size): the flush fails"
                        % (len(rec_of(o[1])), len(o[1])))
            return "append %d bytes in %d chunk(s), the encoder then FAILS" % (len(rec_of(o[1])), len(o[1]))
        if o[0] == 10:
            return ("append %d bytes in %d chunk(s); its %s appends a %d-byte record to a second rolling appender "
                    "(size trigger 10, window 2) from inside the call" % (
                        len(rec_of(o[1])), len(o[1]), "encoder" if o[3] == 1 else "roller", len(o[2])))
        return "burst %r" % ([[len(rec_of(r_)) for r_ in t_] for t_ in o[1]],)
    return {"trigger": t, "roller": r,
            "pre_existing_bytes": (len(pre[1]) if pre[0] in (1, 2) else None),
            "log_path_is_a_symlink": pre[0] == 2,
            "first_build_append": bool(a0), "ops": [opd(o) for o in ops]}


def extra_coverage(ctx):
    return {"observed": dict(STATS)}


COMMON_ASSUMPTIONS = [
    "all file-system calls succeed (failed/interrupted rotations are C08's subject)",
    "`encode; flush` delivers the encoder's chunks completely and in order to the end of the active file "
    "(BufWriter internals are C04's subject); exercised here with records below, at and above the 1 KiB buffer",
    "active path and archive names are pairwise distinct; an archive is represented by its decompressed bytes",
    "parking_lot::Mutex is modelled as an owner bit (Common/LockSerial.v) and append() as Acquire; micro-steps; "
    "Release with every access to writer slot / files / trigger state inside the critical section, as the code "
    "reads; under that model every schedule equals the sequential run in lock-acquisition order (proved). The burst "
    "ops validate it on the real crate: the observed order must be a merge of the threads' sequences and the files "
    "must match the model run in that order",
    "time trigger: the model treats it as an oracle trigger; the checked cases feed the model the decisions "
    "predicted from the documented schedule (second intervals, UTC, no random delay) — the schedule is C16's subject",
    "u64 length counter and u32 archive indices do not overflow (base + count <= 2^32 is C07's subject)",
    "synchronous rotation (default build) - the `background_rotation` build is exercised by C05 only",
    "a failing roller (C06/C17 histories with op 7) is modelled as returning Err before its first file-system "
    "effect; partially executed rotations are C08's subject",
]
