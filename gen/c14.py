"""C14 — configuration files in YAML / JSON / TOML vs the model of log4rs' schema + lossy pipeline.

case: ( tree durations docs probes files )
  tree      : the document tree handed to the model (encoding in coq/Run/C14.v)
  durations : the humantime oracle table for the refresh_rate strings used
  docs      : ((ext text) ...) the SAME tree rendered by this module into each format
              (TOML is left out when the tree has a null or an integer outside i64)
  probes    : ((target level message) ...) logged through a non-global Logger::new(config)
  files     : paths (relative to the scratch directory @D@) pre-populated with an OLD line
The implementation run (run_impl) first asks the extracted model for the logical configuration of
each tree and hands it to the harness as the *programmatic equivalent* to build with the builders.
"""
import copy
import json
import os
import re

RULE = ("stream A (renderings): random logical configurations — 0-4 appenders over every registered kind "
        "(console/file/rolling_file; pattern/json/default encoder; 0-2 threshold filters; compound policy with "
        "size/time/onstartup trigger and delete/fixed_window roller), 0-4 loggers (nested names, additive on/off), "
        "root, optional refresh_rate — each rendered to a document tree with every defaulted field independently "
        "omitted / written / null, `kind` of encoder/policy omitted or explicit, level names in random letter case, "
        "size and interval literals in random equivalent spellings, keys shuffled at every level, then written as "
        "YAML (block+flow), JSON and TOML (tables / inline tables / arrays of tables) by this module. "
        "stream B (mutants): one edit of such a tree — unknown key at each of the 8 section kinds (+ filter), "
        "wrong-typed scalar or section, unknown kind, deleted key, dangling appender reference, malformed logger "
        "name, unopenable path, roller pattern without {} (a .zst / .gz one is fine: both features are on), degenerate numbers. "
        "non-trivial = a mutant, or a rendering with >= 2 appenders and >= 1 logger; distinct = distinct tree")
ASSUMPTIONS = [
    "text -> tree (serde_yaml, serde_json, toml, serde derive, serde-value) is trusted and exercised, not modelled",
    "map keys are pairwise distinct and strings; integers lie in [-2^63, 2^64) (YAML/JSON) resp. i64 (TOML): "
    "outside that the three front-ends themselves disagree (repeated key: last wins / rejected; 2^64: whole YAML "
    "document rejected, JSON appender dropped)",
    "not generated because the front-ends disagree on them (serde-derive/serde_yaml features, outside the tree model): "
    "a sequence in place of the root/logger section (read positionally by JSON/TOML, rejected by YAML), a map in "
    "place of a level (`{info: null}` accepted as enum by JSON and serde-value), non-string items in root/logger "
    "`appenders` (serde_yaml stringifies scalars)",
    "refresh_rate strings come from a fixed table of humantime forms (oracle for the model)",
    "a log path ending in `/.` is unopenable (names the directory); every other generated path is creatable",
    "time triggers use hour-or-longer periods so no roll boundary falls inside the run; console output is captured by "
    "redirecting fd 1 / fd 2 into files while the probes are logged (not a tty: `tty_only` consoles stay silent)",
    "error reports are compared by number (stderr lines `log4rs: `) and, for build errors, typed kind+name; texts never",
    "strict path = serde parse of RawConfig + log4rs::config::create_raw_config (YAML, JSON; no public TOML entry point); "
    "for every third document also log4rs::init_raw_config in a child process (the two must decide alike)",
    "dates written by `{d}` and the JSON encoder's `time` field are masked before outputs are compared",
    "file contents are not compared for (mutant) documents in which a size-triggered rolling appender writes time "
    "stamps (chrono prints 3/6/9 fractional digits, so roll points vary between runs); structure still is",
    "built components are also compared structurally with their programmatic equivalents through their Debug "
    "renderings (two objects printed by the same binary; the scheduled next_roll_time is masked)",
]
TRUSTED = ["serde_yaml 0.9 / serde_json / toml 0.8 / serde derive / serde-value: text -> document tree",
           "humantime::parse_duration (refresh_rate), TimeTrigger::new arithmetic (C16), the OS file system"]
RELEASE_TOO = True          # the cases also run through the release-profile harness (see ./check)
EXHAUSTIVE = {"quick": False, "thorough": False}
IMPL_TIMEOUT = 600
KNOWN = "F-C16-degenerate-interval"

# ------------------------------------------------------------------------------------------------
# tree values: None | bool | int | F(text) | str | list | dict(ordered)


class F(tuple):
    def __new__(cls, text):
        return tuple.__new__(cls, ("f", text))


def is_f(v):
    return isinstance(v, tuple) and len(v) == 2 and v[0] == "f"


def cps(s):
    return [ord(c) for c in s]


def enc_tree(v):
    if v is None:
        return [0]
    if v is True or v is False:
        return [1, 1 if v else 0]
    if isinstance(v, int):
        return [2, [1 if v < 0 else 0, abs(v)]]
    if is_f(v):
        return [3, cps(v[1])]
    if isinstance(v, str):
        return [4, cps(v)]
    if isinstance(v, list):
        return [5, [enc_tree(x) for x in v]]
    if isinstance(v, dict):
        return [6, [[cps(k), enc_tree(x)] for k, x in v.items()]]
    raise TypeError(repr(v))


def dec_tree(e):
    t = e[0]
    if t == 0:
        return None
    if t == 1:
        return bool(e[1])
    if t == 2:
        return -e[1][1] if e[1][0] else e[1][1]
    if t == 3:
        return F("".join(map(chr, e[1])))
    if t == 4:
        return "".join(map(chr, e[1]))
    if t == 5:
        return [dec_tree(x) for x in e[1]]
    return {"".join(map(chr, k)): dec_tree(x) for k, x in e[1]}


# ------------------------------------------------------------------------------------------------
# renderers

SAFE = re.compile(r"^[A-Za-z_][A-Za-z0-9_]*$")
YAML_WORDS = {"true", "false", "null", "yes", "no", "on", "off", "y", "n", "~", ""}


def to_json(v, rng):
    def go(v):
        if v is None:
            return "null"
        if v is True:
            return "true"
        if v is False:
            return "false"
        if isinstance(v, int):
            return str(v)
        if is_f(v):
            return v[1]
        if isinstance(v, str):
            return json.dumps(v, ensure_ascii=rng.chance(1, 2))
        if isinstance(v, list):
            return "[" + ", ".join(go(x) for x in v) + "]"
        return "{" + ", ".join(json.dumps(k) + ": " + go(x) for k, x in v.items()) + "}"
    return go(v) + "\n"


def _y_scalar(v, rng):
    if v is None:
        return rng.choice(["null", "~"])
    if v is True:
        return "true"
    if v is False:
        return "false"
    if isinstance(v, int):
        return str(v)
    if is_f(v):
        return v[1]
    if isinstance(v, P):
        return str(v) if rng.chance(2, 3) else json.dumps(v)
    if SAFE.match(v) and v.lower() not in YAML_WORDS and rng.chance(1, 2):
        return v
    return json.dumps(v, ensure_ascii=False)   # raw UTF-8: a JSON surrogate-pair escape is not YAML


def _y_key(k, rng):
    if isinstance(k, P):
        return str(k) if rng.chance(2, 3) else json.dumps(k)
    if SAFE.match(k) and k.lower() not in YAML_WORDS and rng.chance(3, 4):
        return k
    return json.dumps(k, ensure_ascii=False)


def _y_flow(v, rng):
    if isinstance(v, list):
        return "[" + ", ".join(_y_flow(x, rng) for x in v) + "]"
    if isinstance(v, dict):
        return "{" + ", ".join(_y_key(k, rng) + ": " + _y_flow(x, rng) for k, x in v.items()) + "}"
    return _y_scalar(v, rng)


def to_yaml(v, rng):
    out = []

    def block(v, ind):
        pad = " " * ind
        if isinstance(v, dict):
            for k, x in v.items():
                if isinstance(x, (dict, list)) and x and not rng.chance(1, 6):
                    out.append(pad + _y_key(k, rng) + ":")
                    block(x, ind + 2)
                else:
                    out.append(pad + _y_key(k, rng) + ": " + _y_flow(x, rng))
        else:
            for x in v:
                if isinstance(x, dict) and x:
                    start = len(out)
                    block(x, ind + 2)
                    out[start] = pad + "- " + out[start][ind + 2:]
                else:
                    out.append(pad + "- " + _y_flow(x, rng))

    if isinstance(v, dict) and v:
        block(v, 0)
        return "\n".join(out) + "\n"
    return _y_flow(v, rng) + "\n"


BARE = re.compile(r"^[A-Za-z0-9_-]+$")


def _t_str(s):
    # TOML basic string: JSON's escapes for quote, backslash and control characters are TOML's too; everything
    # else is written raw (a JSON surrogate-pair escape would be invalid TOML)
    return json.dumps(s, ensure_ascii=False).replace("\x7f", "\\u007f")


def _t_key(k):
    return k if BARE.match(k) else _t_str(k)


def _t_inline(v):
    if v is True:
        return "true"
    if v is False:
        return "false"
    if isinstance(v, int):
        return str(v)
    if is_f(v):
        return v[1]
    if isinstance(v, str):
        return _t_str(v)
    if isinstance(v, list):
        return "[" + ", ".join(_t_inline(x) for x in v) + "]"
    return "{" + ", ".join(_t_key(k) + " = " + _t_inline(x) for k, x in v.items()) + "}"


def _toml_unfit(v):
    if v is None:
        return True
    if isinstance(v, bool):
        return False
    if isinstance(v, int):
        return not (-2 ** 63 <= v < 2 ** 63)
    if isinstance(v, list):
        return any(_toml_unfit(x) for x in v)
    if isinstance(v, dict):
        return any(_toml_unfit(x) for x in v.values())
    return False


def to_toml(v, rng):
    """None when the tree cannot be written in TOML (null, non-table root, integer outside i64).
    Sub-tables are emitted as [a.b] headers after the scalars of their parent, or inline at random;
    lists of tables as [[a.b]] or inline arrays."""
    if not isinstance(v, dict) or _toml_unfit(v):
        return None
    out = []

    def table(t, path):
        later = []
        for k, x in t.items():
            if isinstance(x, dict) and not rng.chance(1, 5):
                later.append((k, x, "t"))
            elif isinstance(x, list) and x and all(isinstance(e, dict) for e in x) and rng.chance(1, 2):
                later.append((k, x, "a"))
            else:
                out.append(_t_key(k) + " = " + _t_inline(x))
        for k, x, how in later:
            p = path + [_t_key(k)]
            if how == "t":
                out.append("[" + ".".join(p) + "]")
                table(x, p)
            else:
                for e in x:
                    out.append("[[" + ".".join(p) + "]]")
                    table(e, p)

    table(v, [])
    return "\n".join(out) + "\n"


# ------------------------------------------------------------------------------------------------
# logical configurations and their renderings

LEVELS = ["off", "error", "warn", "info", "debug", "trace"]
DURS = [("30 seconds", 30, 0), ("1s", 1, 0), ("5 min", 300, 0), ("2h 30m", 9000, 0), ("1500ms", 1, 500000000),
        ("1day", 86400, 0), ("100 ms", 0, 100000000), ("3 weeks", 1814400, 0), ("45sec", 45, 0)]
BAD_DURS = ["soon", "30", "10 parsecs", "", "-5s", "@D@/zz"]
LOGGER_NAMES = ["app", "app::x", "app::x::y", "other", "lib::é", "app::z", "lib::\U0001F600",
                # a logger name is an opaque string of '::'-separated segments: none of these is another one
                "my-svc", "my_svc", "my-svc::db-pool", "my_svc::db_pool", "My-Svc", "a.b", "web server", "app::X"]
APP_NAMES = ["a0", "a1", "a2", "a3", "main-file", "app é", "x.y"]


class P(str):
    """an appender name that reads like a number or a YAML keyword.  It is a STRING in the tree (and quoted in JSON and
    in TOML values); where a YAML document names an appender - a key of `appenders`, an item of a root / logger
    `appenders` list - the target type is a string, so the plain spelling (`1`, `true`, `0x10`) is that string too and
    the YAML renderer may write it unquoted."""


ODD_APP_NAMES = [P("1"), P("007"), P("true"), P("null"), P("0x10"), P("1e3"), P("no"), P("1.5"), P("-3"), P("Yes")]
SIZE_UNITS = [("b", 1), ("kb", 1024), ("kib", 1024), ("mb", 1024 ** 2), ("mib", 1024 ** 2),
              ("gb", 1024 ** 3), ("tb", 1024 ** 4)]
TIME_UNITS = ["second", "minute", "hour", "day", "week", "month", "year"]


def rcase(s, rng):
    m = rng.below(4)
    if m == 0:
        return s
    if m == 1:
        return s.upper()
    if m == 2:
        return s.capitalize()
    return "".join(c.upper() if rng.chance(1, 2) else c for c in s)


def ws(rng):
    return rng.choice(["", " ", " ", "  ", "\t"])


def gen_logical(rng):
    n_app = rng.choice([0, 1, 2, 2, 3, 3, 4])
    names = rng.shuffle(APP_NAMES + (rng.shuffle(ODD_APP_NAMES)[:2] if rng.chance(1, 3) else []))[:n_app]
    apps = []
    for i, nm in enumerate(names):
        k = rng.choice(["file", "file", "file", "rolling", "rolling", "console"])
        enc = rng.choice([None, ("pattern", "P%d|{l}|{t}|{m}{n}" % i), ("pattern", "P%d\U0001F600é|{l}|{t}|{m}{n}" % i),
                          ("pattern", "%d {h({l})} {M} {m}{n}" % i), ("json",),
                          # escaped backslashes followed by n / r / t, escaped braces: the text of the file is
                          # the pattern, character for character
                          ("pattern", "P%d C:\\\\new\\\\temp\\\\run \\{{t}\\}=[{t}] {m}{n}" % i)])
        a = {"name": nm, "kind": k, "filters": [rng.below(6) for _ in range(rng.choice([0, 0, 1, 1, 2]))], "enc": enc}
        if k == "console":
            a["target"] = rng.choice(["stdout", "stderr", "stderr"])
            a["tty_only"] = rng.chance(1, 3)
        else:
            a["path"] = rng.choice(["@D@/f%d.log", "@D@/sub%d/f.log", "@D@/deep/er/f%d.log"]) % i
            a["append"] = rng.chance(2, 3)
        if k == "rolling":
            t = rng.below(4)
            if t <= 1:
                trig = ("size", rng.choice([0, 30, 100, 100, 200, 200, 400, 400, 1024, 2048, 10 * 1024 ** 2]))
            elif t == 2:
                u = rng.below(7)
                n = {0: rng.choice([3600, 86400, 100000]), 1: rng.choice([60, 1440, 5000])}.get(u, rng.range(1, 12))
                trig = ("time", u, n, rng.chance(1, 2), rng.choice([0, 0, 1, 5]))
            else:
                trig = ("onstartup", rng.choice([0, 1, 1, 5, 12, 13, 100]))
            if rng.chance(1, 3):
                roll = ("delete",)
            else:
                roll = ("fixed_window", rng.choice(["@D@/arch%d/r.{}.log", "@D@/r%d.{}.old", "@D@/arch%d/r.{}.log.gz"]) % i,
                        rng.choice([0, 0, 1, 2]), rng.choice([0, 1, 2, 3]))
            a["policy"] = (trig, roll)
            if trig[0] == "size" and trig[1] < 100000 and (enc is None or enc[0] == "json"):
                # chrono prints 3/6/9 fractional digits: record length, hence the roll points, would vary from run to run
                a["enc"] = ("pattern", "P%d|{l}|{t}|{m}{n}" % i)
        apps.append(a)
    usable = [a["name"] for a in apps]

    def refs():
        return [rng.choice(usable) for _ in range(rng.below(3))] if usable else []
    loggers = []
    for nm in rng.shuffle(LOGGER_NAMES)[:rng.below(6)]:
        loggers.append({"name": nm, "level": rng.choice([0, 1, 2, 3, 3, 4, 4, 5, 5]), "apps": refs(), "additive": rng.chance(2, 3)})
    return {"refresh": rng.choice(DURS) if rng.chance(1, 2) else None, "root_level": rng.choice([4, 4, 4, 5, 5, 3, 3, 2, 1, 0]),
            "root_apps": refs(), "appenders": apps, "loggers": loggers}


def shuffled(d, rng):
    return dict(rng.shuffle(list(d.items())))


def opt_field(d, key, val, is_default, rng, nullable):
    """write a defaulted field: omitted / explicit (/ null when the Rust type is an Option)"""
    if not is_default:
        d[key] = val
        return
    m = rng.below(3 if nullable else 2)
    if m == 1:
        d[key] = val
    elif m == 2:
        d[key] = None


def render_size(n, rng):
    forms = [n, str(n)]
    for u, mult in SIZE_UNITS:
        if n % mult == 0:
            forms.append("%d%s%s%s" % (n // mult, ws(rng), rcase(u, rng), rng.choice(["", "", " "])))
    return rng.choice(forms)


def render_interval(u, n, rng):
    forms = ["%d%s%s%s" % (n, ws(rng), rcase(TIME_UNITS[u] + rng.choice(["", "s"]), rng), rng.choice(["", " "]))]
    if u == 0:
        forms += [n, str(n)]
    return rng.choice(forms)


def render_encoder(enc, rng):
    """returns (present, value)"""
    if enc is None:
        m = rng.below(4)
        if m == 0:
            return False, None
        if m == 1:
            return True, None
        d = {}
        if rng.chance(1, 2):
            d["kind"] = "pattern"
        opt_field(d, "pattern", "{d} {l} {t} - {m}{n}", True, rng, True)
        return True, shuffled(d, rng)
    if enc[0] == "json":
        return True, {"kind": "json"}
    d = {"pattern": enc[1]}
    if rng.chance(1, 2):
        d["kind"] = "pattern"
    return True, shuffled(d, rng)


def render(lc, rng):
    doc = {}
    if lc["refresh"] is not None:
        doc["refresh_rate"] = lc["refresh"][0]
    elif rng.chance(1, 4):
        doc["refresh_rate"] = None
    root = {}
    opt_field(root, "level", rcase(LEVELS[lc["root_level"]], rng), lc["root_level"] == 4, rng, False)
    opt_field(root, "appenders", list(lc["root_apps"]), not lc["root_apps"], rng, False)
    if root or rng.chance(1, 2):
        doc["root"] = shuffled(root, rng)
    apps = {}
    for a in lc["appenders"]:
        d = {"kind": {"rolling": "rolling_file"}.get(a["kind"], a["kind"])}
        fl = [shuffled({"kind": "threshold", "level": rcase(LEVELS[l], rng)}, rng) for l in a["filters"]]
        opt_field(d, "filters", fl, not fl, rng, False)
        present, ev = render_encoder(a["enc"], rng)
        if present:
            d["encoder"] = ev
        if a["kind"] == "console":
            opt_field(d, "target", a["target"], a["target"] == "stdout", rng, True)
            opt_field(d, "tty_only", a["tty_only"], not a["tty_only"], rng, True)
        else:
            d["path"] = a["path"]
            opt_field(d, "append", a["append"], a["append"], rng, True)
        if a["kind"] == "rolling":
            trig, roll = a["policy"]
            if trig[0] == "size":
                t = {"kind": "size", "limit": render_size(trig[1], rng)}
            elif trig[0] == "time":
                t = {"kind": "time", "interval": render_interval(trig[1], trig[2], rng)}
                opt_field(t, "modulate", trig[3], not trig[3], rng, False)
                opt_field(t, "max_random_delay", trig[4], trig[4] == 0, rng, False)
            else:
                t = {"kind": "onstartup"}
                opt_field(t, "min_size", trig[1], trig[1] == 1, rng, False)
            if roll[0] == "delete":
                r = {"kind": "delete"}
            else:
                r = {"kind": "fixed_window", "pattern": roll[1], "count": roll[3]}
                opt_field(r, "base", roll[2], roll[2] == 0, rng, True)
            p = {"trigger": shuffled(t, rng), "roller": shuffled(r, rng)}
            if rng.chance(1, 2):
                p["kind"] = "compound"
            d["policy"] = shuffled(p, rng)
        apps[a["name"]] = shuffled(d, rng)
    if apps or rng.chance(1, 2):
        doc["appenders"] = shuffled(apps, rng)
    lgs = {}
    for l in lc["loggers"]:
        d = {"level": rcase(LEVELS[l["level"]], rng)}
        opt_field(d, "appenders", list(l["apps"]), not l["apps"], rng, False)
        opt_field(d, "additive", l["additive"], l["additive"], rng, False)
        lgs[l["name"]] = shuffled(d, rng)
    if lgs or rng.chance(1, 2):
        doc["loggers"] = shuffled(lgs, rng)
    return shuffled(doc, rng)


# ------------------------------------------------------------------------------------------------
# mutants

SECTION_KINDS = ["document", "root", "logger", "appender", "encoder", "policy", "trigger", "roller", "filter"]


def sections(doc):
    """[(kind, dict)] every schema section present in the tree"""
    out = [("document", doc)]
    if isinstance(doc.get("root"), dict):
        out.append(("root", doc["root"]))
    if isinstance(doc.get("loggers"), dict):
        out += [("logger", l) for l in doc["loggers"].values() if isinstance(l, dict)]
    if isinstance(doc.get("appenders"), dict):
        for a in doc["appenders"].values():
            if not isinstance(a, dict):
                continue
            out.append(("appender", a))
            if isinstance(a.get("encoder"), dict):
                out.append(("encoder", a["encoder"]))
            if isinstance(a.get("filters"), list):
                out += [("filter", f) for f in a["filters"] if isinstance(f, dict)]
            p = a.get("policy")
            if isinstance(p, dict):
                out.append(("policy", p))
                if isinstance(p.get("trigger"), dict):
                    out.append(("trigger", p["trigger"]))
                if isinstance(p.get("roller"), dict):
                    out.append(("roller", p["roller"]))
    return out


WRONG = [5, -1, True, F("1.5"), "@D@/zz", None, [], {}, 0, 2 ** 32, "3", "true"]


def mutate(doc, rng, kind=None):
    """returns (tag, mutated tree) or None when the mutation does not apply"""
    doc = copy.deepcopy(doc)
    secs = sections(doc)
    m = kind if kind is not None else rng.choice(
        ["unknown_key"] * 4 + ["wrong_type"] * 4 + ["unknown_kind", "delete_key", "delete_key", "dangling", "logger_name",
                                                    "bad_path", "bad_roller_pattern", "degenerate", "degenerate", "bad_refresh"])
    if m == "unknown_key":
        want = rng.choice(SECTION_KINDS)
        cands = [s for k, s in secs if k == want]
        if not cands:
            return None
        s = rng.choice(cands)
        # an invented key, or - half of the time - a key that IS valid in some other section of a document
        # (`additive` in the root, `level` in an appender, `appenders` in a roller ...): unknown where it stands
        key = rng.choice(["extra", "kinds", "Level", "path2", "x"]) if rng.chance(1, 2) else rng.choice(
            ["additive", "appenders", "level", "kind", "path", "pattern", "encoder", "filters", "limit", "count", "base",
             "target", "tty_only", "append", "refresh_rate", "name", "root", "loggers", "policy", "trigger", "roller",
             "interval", "modulate", "max_random_delay", "min_size"])
        if key in s:
            return None
        s[key] = rng.choice([1, "v", True, [], {}])
        items = rng.shuffle(list(s.items()))
        s.clear()
        s.update(items)
        return "unknown_key:" + want, doc
    if m == "wrong_type":
        k, s = rng.choice(secs)
        if not s:
            return None
        key = rng.choice(list(s.keys()))
        new = rng.choice(WRONG)
        old = s[key]
        if type(new) == type(old) and not isinstance(new, (str, int)):
            return None
        # shapes on which the front-ends themselves disagree are filtered by excluded_shape()
        if isinstance(new, str) and key in ("path", "pattern"):
            new = "@D@/zz"          # never a relative path: the harness must not write outside its scratch directory
        s[key] = new
        return "wrong_type:%s.%s" % (k, key), doc
    if m == "unknown_kind":
        cands = [(k, s) for k, s in secs if k in ("appender", "encoder", "policy", "trigger", "roller", "filter")]
        if not cands:
            return None
        k, s = rng.choice(cands)
        s["kind"] = rng.choice(["nope", "File", "pattern ", "sizes", "", "console2", "json", "delete", "time"])
        return "unknown_kind:" + k, doc
    if m == "delete_key":
        k, s = rng.choice(secs)
        if not s:
            return None
        key = rng.choice(list(s.keys()))
        del s[key]
        return "delete_key:%s.%s" % (k, key), doc
    if m == "dangling":
        cands = [s for k, s in secs if k in ("root", "logger")]
        if not cands:
            return None
        s = rng.choice(cands)
        cur = s.get("appenders")
        if not isinstance(cur, list):
            cur = []
        cur = list(cur)
        cur.insert(rng.below(len(cur) + 1), rng.choice(["ghost", "", "a9"]))
        s["appenders"] = cur
        return "dangling", doc
    if m == "logger_name":
        lg = doc.get("loggers")
        if not isinstance(lg, dict) or not lg:
            return None
        old = rng.choice(list(lg.keys()))
        new = rng.choice(["a:b", "", "x::", ":", "a:::b", "::lead", "app::::x"])
        if new in lg:
            return None
        doc["loggers"] = {(new if k == old else k): v for k, v in lg.items()}
        return "logger_name", doc
    if m == "bad_path":
        cands = [s for k, s in secs if k == "appender" and isinstance(s.get("path"), str)]
        if not cands:
            return None
        rng.choice(cands)["path"] = rng.choice(["@D@/.", "@D@/blocked/."])
        return "bad_path", doc
    if m == "bad_roller_pattern":
        cands = [s for k, s in secs if k == "roller" and isinstance(s.get("pattern"), str)]
        if not cands:
            return None
        rng.choice(cands)["pattern"] = rng.choice(["@D@/r.log.old", "@D@/r.{}.log.zst", "@D@/r.{ }.log", "@D@/{}", "@D@/q/{}{}", "@D@/r{}.zst"])
        return "bad_roller_pattern", doc
    if m == "degenerate":
        cands = [s for k, s in secs if k == "trigger" and "interval" in s]
        if cands and rng.chance(2, 3):
            s = rng.choice(cands)
            w = rng.below(4)
            if w == 0:
                s["interval"] = rng.choice([0, "0", "0 days", "0 week", "0 months", "0 year", "0 hours"])
                s["modulate"] = rng.chance(2, 3)
            elif w == 1:
                s["interval"] = rng.choice(["300000 years", "4294967296 months", "4611686018427387904", "9223372036854775807 weeks",
                                            "99999999999 days", "9223372036854775807"])
            elif w == 2:
                s["max_random_delay"] = rng.choice([2 ** 63 - 1, 2 ** 62, 2 ** 64 - 1, 9223372036854775])
            else:
                s["interval"] = rng.choice(["9223372036854775808", "18446744073709551615", 2 ** 63, "-1", -1, "1 fortnight"])
            return "degenerate:time", doc
        cands = [(k, s) for k, s in secs if k in ("trigger", "roller")]
        if not cands:
            return None
        k, s = rng.choice(cands)
        if "limit" in s:
            s["limit"] = rng.choice([0, "0 kb", 2 ** 64 - 1, "18446744073709551615", "18014398509481984 kb", "16777216 tb",
                                     "17179869184 gb", 2 ** 63, "1 xb", "kb", " 5", "5 k b"])
        elif "min_size" in s:
            s["min_size"] = rng.choice([0, 2 ** 64 - 1, 2 ** 63, -1])
        elif "count" in s:
            # (2^32-1 is accepted, but the first roll then walks ~2^32 archive indices — a practical hang, and
            #  with base > 0 `base + (count - 1)` overflows: C07's subject, kept out of this harness)
            s["count"] = rng.choice([2 ** 32, 4294967296000, -1, 2 ** 63]) if rng.chance(1, 2) else s["count"]
            if rng.chance(1, 2):
                s["base"] = rng.choice([2 ** 32, -1])
        else:
            return None
        return "degenerate:number", doc
    if m == "bad_refresh":
        doc["refresh_rate"] = rng.choice(BAD_DURS)
        return "bad_refresh", doc
    return None


def excluded_shape(doc):
    """shapes outside the tree model's stated domain (front-ends disagree; see ASSUMPTIONS)"""
    def ints_ok(v):
        if isinstance(v, bool) or v is None:
            return True
        if isinstance(v, int):
            return -2 ** 63 <= v < 2 ** 64
        if isinstance(v, list):
            return all(ints_ok(x) for x in v)
        if isinstance(v, dict):
            return all(ints_ok(x) for x in v.values())
        return True
    if not ints_ok(doc):
        return True
    if isinstance(doc.get("root"), list):
        return True
    lg = doc.get("loggers")
    if isinstance(lg, dict) and any(isinstance(v, list) for v in lg.values()):
        return True
    for k, s in sections(doc):
        if k in ("root", "logger"):
            a = s.get("appenders")
            if isinstance(a, list) and any(not isinstance(x, str) for x in a):
                return True
        if isinstance(s.get("level"), dict):
            return True
    return False


# ------------------------------------------------------------------------------------------------
# cases

def file_list(doc):
    out = []
    for k, s in sections(doc):
        if k == "appender" and isinstance(s.get("path"), str) and s["path"].startswith("@D@/") and not s["path"].endswith("/."):
            out.append(s["path"][4:])
    return sorted(set(out))


def probes_for(doc, rng):
    targets = ["", "app", "app::x", "app::x::y::deep", "other", "lib::é", "appx", "lib::\U0001F600", "my-svc", "my_svc::db_pool::c"]
    lg = doc.get("loggers")
    if isinstance(lg, dict):
        targets += [t for t in lg.keys() if t not in targets]
    out = []
    k = 0
    for t in targets:
        for lvl in (1, 2, 3, 4, 5):
            out.append([t, lvl, "m%d" % k])
            k += 1
    return out


def make_case(doc, rng, tag):
    docs = [[rng.choice(["yaml", "yaml", "yml"]), to_yaml(doc, rng)], ["json", to_json(doc, rng)]]
    tm = to_toml(doc, rng)
    if tm is not None:
        docs.append(["toml", tm])
    durs = [[cps(s), a, b] for s, a, b in DURS]
    return [enc_tree(doc), durs, docs, probes_for(doc, rng), file_list(doc), tag]


def corpus():
    import vcommon as vc
    rng = vc.Rng(14)
    base = {"refresh_rate": "30 seconds",
            "appenders": {"f1": {"kind": "file", "path": "@D@/f1.log", "encoder": {"pattern": "A|{l}|{t}|{m}{n}"},
                                 "filters": [{"kind": "threshold", "level": "info"}]},
                          "r1": {"kind": "rolling_file", "path": "@D@/r1.log",
                                 "policy": {"trigger": {"kind": "size", "limit": "1 kb"},
                                            "roller": {"kind": "fixed_window", "pattern": "@D@/r1.{}.log", "count": 2}}},
                          "c1": {"kind": "console", "target": "stderr"}},
            "root": {"level": "debug", "appenders": ["f1", "r1"]},
            "loggers": {"app::x": {"level": "info", "appenders": ["f1", "c1"], "additive": False}}}
    out = [make_case(base, rng, "corpus:base"), make_case({}, rng, "corpus:empty")]
    for want in SECTION_KINDS:
        for _ in range(20):
            r = mutate(base, rng, "unknown_key")
            if r and r[0] == "unknown_key:" + want:
                out.append(make_case(r[1], rng, "corpus:" + r[0]))
                break
    # every key that is valid SOMEWHERE in a document, planted in every kind of section (first section of that kind in
    # the base document) with a value of the type it has where it is valid: `additive` in the root, `level` in an
    # appender, `appenders` in a roller ...  The schema model says which of them are known where they stand.
    elsewhere = {"additive": False, "appenders": ["f1"], "level": "info", "kind": "file", "path": "@D@/x.log",
                 "pattern": "{m}{n}", "encoder": {"pattern": "{m}{n}"}, "filters": [], "limit": "1 kb", "count": 2,
                 "base": 1, "target": "stdout", "tty_only": False, "append": True, "refresh_rate": "30 seconds",
                 "root": {"level": "info"}, "loggers": {}, "policy": {}, "trigger": {"kind": "size", "limit": 5},
                 "roller": {"kind": "delete"}, "interval": "1 day", "modulate": False, "max_random_delay": 0, "min_size": 1}
    for want in SECTION_KINDS:
        for key, val in elsewhere.items():
            d = copy.deepcopy(base)
            cands = [sec for k_, sec in sections(d) if k_ == want]
            if not cands or key in cands[0]:
                continue
            cands[0][key] = copy.deepcopy(val)
            out.append(make_case(d, rng, "corpus:key-valid-elsewhere:%s.%s" % (want, key)))
    d = copy.deepcopy(base)
    d["appenders"]["t1"] = {"kind": "rolling_file", "path": "@D@/t1.log",
                            "policy": {"trigger": {"kind": "time", "interval": 0, "modulate": True}, "roller": {"kind": "delete"}}}
    out.append(make_case(d, rng, "corpus:interval0-modulate"))
    return out


def cases(rng, tier):
    out = []
    n_render = 240 if tier == "quick" else 2500
    n_mut = 1000 if tier == "quick" else 12000
    bases = []
    for _ in range(n_render):
        lc = gen_logical(rng)
        doc = render(lc, rng)
        bases.append(doc)
        out.append(make_case(doc, rng, "render"))
    made = 0
    guard = 0
    while made < n_mut and guard < n_mut * 20:
        guard += 1
        r = mutate(rng.choice(bases), rng)
        if r is None or excluded_shape(r[1]):
            continue
        out.append(make_case(r[1], rng, r[0]))
        made += 1
    return out


def nontrivial(c):
    tag = c[5]
    if tag != "render":
        return True
    doc = dec_tree(c[0])
    return len(doc.get("appenders") or {}) >= 2 and len(doc.get("loggers") or {}) >= 1


def classify(c):
    return c[5].split(".")[0]


def describe(c):
    return {"tag": c[5], "yaml": c[2][0][1], "formats": [d[0] for d in c[2]]}


# ------------------------------------------------------------------------------------------------
# running

def _s(v):
    return "".join(map(chr, v))


def _b(v):
    return _s(v).encode("utf-8")


def prog_of(model):
    """the programmatic equivalent (harness lconfig) of a model result"""
    if not isinstance(model, list) or model[0] != 1:
        return []
    _, refresh, apps, derrs, cfg, berrs, strict = model

    def enc(e):
        return [0, _b(e[1])] if e[0] == 0 else [1]

    def comp(c):
        if c[0] == 0:
            return [0, c[1], c[2], enc(c[3])]
        if c[0] == 1:
            return [1, _b(c[1]), c[2], enc(c[3])]
        pol = c[4]
        roll = pol[2]
        return [2, _b(c[1]), c[2], enc(c[3]),
                [0, pol[1], [0] if roll[0] == 0 else [1, _b(roll[1]), roll[2], roll[3]]]]
    kept = set(_s(n) for n in cfg[0])
    la = [[_b(a[0]), a[1], comp(a[2])] for a in apps if _s(a[0]) in kept]
    return [[refresh, cfg[1], [_b(r) for r in cfg[2]],
             [[_b(l[0]), l[1], [_b(r) for r in l[2]], l[3]] for l in cfg[3]], la]]


def run_impl(ctx, cases, lines):
    vc = ctx["vc"]
    mlines = vc.run_lines([ctx["drv"]], lines, timeout_per_batch=900, crash_marker="xmodelcrash")
    hl = []
    for c, ml in zip(cases, mlines):
        try:
            prog = prog_of(vc.parse(ml))
        except Exception:
            prog = []
        hl.append(vc.show([c[2], c[3], c[4], prog]))
    # independent cases, independent scratch directories: four harness processes side by side
    from concurrent.futures import ThreadPoolExecutor
    nw = 4
    chunks = [hl[i::nw] for i in range(nw)]
    with ThreadPoolExecutor(max_workers=nw) as ex:
        outs = list(ex.map(lambda ch: vc.run_lines([ctx["vh"]], ch, timeout_per_batch=IMPL_TIMEOUT), chunks))
    res = [None] * len(hl)
    for w in range(nw):
        for j, o in enumerate(outs[w]):
            res[w + j * nw] = o
    return res


DATE = re.compile(r"\d{4}-\d\d-\d\dT\d\d:\d\d:\d\d\.\d+[+-]\d\d:\d\d")
JTIME = re.compile(r'"time":"[^"]*"')


def norm_behaviour(beh):
    """mask what legitimately differs between two runs: `{d}` dates and the JSON encoder's time field"""
    out = []
    for name, content in beh:
        txt = content.decode("utf-8", "replace")
        txt = JTIME.sub('"time":"<t>"', DATE.sub("<date>", txt))
        out.append((name.decode("utf-8", "replace"), txt))
    return out


def degenerate(doc):
    """the decidable class of F-C16-degenerate-interval as it shows in a document: a time trigger
    whose interval is 0 or beyond ~2^40 seconds, or an absurd max_random_delay"""
    secs_per = {"second": 1, "minute": 60, "hour": 3600, "day": 86400, "week": 604800, "month": 2678400, "year": 31622400}
    for k, s in sections(doc):
        if k != "trigger" or s.get("kind") != "time":
            continue
        iv = s.get("interval")
        n, u = None, "second"
        if isinstance(iv, int) and not isinstance(iv, bool):
            n = iv
        elif isinstance(iv, str):
            mm = re.match(r"^(\d+)\s*([A-Za-z]*)\s*$", iv)
            if mm:
                n = int(mm.group(1))
                u = (mm.group(2) or "second").lower().rstrip("s") or "second"
        if n is not None and (n == 0 or n * secs_per.get(u, 1) > 2 ** 40):
            return True
        d = s.get("max_random_delay")
        if isinstance(d, int) and not isinstance(d, bool) and d > 2 ** 40:
            return True
    return False


def timing_sensitive(model):
    """a size-triggered rolling appender whose records carry a time stamp (default pattern / `{d` / json): chrono
    prints 3, 6 or 9 fractional digits, so record lengths and roll points differ from run to run"""
    for a in model[2]:
        c = a[2]
        if c[0] == 2 and c[4][1][0] == 0 and c[4][1][1] < 100000:
            e = c[3]
            if e[0] == 1 or "{d" in _s(e[1]):
                return True
    return False


def _acc_of_model(model):
    _, refresh, apps, derrs, cfg, berrs, strict = model
    nf = {_s(a[0]): len(a[1]) for a in apps}
    names = sorted(_b(n) for n in cfg[0])
    return [[[n, nf[n.decode("utf-8")]] for n in names], cfg[1], [_b(r) for r in cfg[2]],
            sorted([[_b(l[0]), l[1], [_b(r) for r in l[2]], l[3]] for l in cfg[3]])]


ROLLTIME = re.compile(r"next_roll_time: RwLock \{ data: [^,]*,")


def _split_acc(acc):
    """accessors without / only the Debug texts of the built components"""
    plain = [[[a[0], a[1]] for a in acc[0]]] + list(acc[1:])
    dbg = [(a[0], ROLLTIME.sub("next_roll_time: <t>,", a[2].decode("utf-8", "replace"))) for a in acc[0]]
    return plain, dbg


def compare(c, impl, model):
    if not isinstance(impl, list) or len(impl) != len(c[2]) + 1:
        return "implementation result malformed / harness panicked: %r" % (impl,)
    docs = c[2]
    prog = impl[-1]
    if model[0] == 1:
        acc = _acc_of_model(model)
        refresh = [0] if not model[1] else [1] + list(model[1])
        nerr = len(model[3]) + len(model[5])
        berrs = sorted(repr([e[0], _b(e[1])]) for e in model[5])
        # status 3 = a panic while LOGGING (not loading) — e.g. fixed_window count 2^32-1 with base > 0 overflows in
        # rotate (C07's subject): accepted here when file-loaded and programmatic configurations do the same
        if not isinstance(prog, list) or len(prog) != 4 or prog[0] not in (1, 3):
            return "the programmatic equivalent of the model's logical configuration did not build/run: %r" % (prog[:1],)
        pacc, pdbg = _split_acc(prog[1])
        if pacc != acc:
            return "programmatic equivalent: accessors differ from the model's configuration"
        pbeh = norm_behaviour(prog[3])
        skip_beh = timing_sensitive(model)
    for (ext, _), d in zip(docs, impl[:-1]):
        ext = ext if isinstance(ext, str) else ext.decode()
        if not isinstance(d, list) or len(d) != 7:
            return "%s: malformed result" % ext
        status, dacc, dn, beh, dref, strict, lossy2 = d
        if model[0] == 0:
            if status != 0:
                return "%s: model rejects the document, load_config_file status=%d" % (ext, status)
            if strict >= 10:
                return "%s: model rejects the document, log4rs::init_raw_config %s it" % (ext, ["rejected", "ACCEPTED", "died on"][strict - 10])
            if strict not in (0, 3):
                return "%s: model rejects the document, strict path status=%d" % (ext, strict)
            if dref != [2]:
                return "%s: model rejects the document, reloader constructor gave %r" % (ext, dref)
            if lossy2 not in ([], [0, 0, []]):
                return "%s: model rejects the document, RawConfig parsed" % ext
            continue
        if model[0] == 2:
            if status != 2:
                return "%s: model predicts a panic while loading, status=%d" % (ext, status)
            continue
        if status != prog[0]:
            return "%s: load_config_file status=%d (0 Err, 1 Ok, 2 panic, 3 panic while logging), model loads it, programmatic %d" % (
                ext, status, prog[0])
        dacc, ddbg = _split_acc(dacc)
        if dacc != acc:
            return "%s: Config accessors differ from the model (appenders/filters, root, loggers)" % ext
        if ddbg != pdbg:
            return "%s: a built component differs from its programmatic equivalent (Debug renderings compared)" % ext
        if dn != nerr:
            return "%s: %d errors reported on stderr, model reports %d" % (ext, dn, nerr)
        if dref != refresh:
            return "%s: refresh_rate %r, model %r" % (ext, dref, refresh)
        if strict >= 10:
            return ("%s: the two strict entry points disagree: log4rs::init_raw_config %s, create_raw_config %s (model: %s)"
                    % (ext, ["rejected", "accepted", "died on"][strict - 10], "accepted" if strict == 10 else "rejected",
                       "accept" if model[6] else "reject"))
        if strict != 3 and strict != model[6]:
            return "%s: strict path %d, model %d" % (ext, strict, model[6])
        if lossy2:
            if lossy2[0] != 1:
                return "%s: appenders_lossy/build_lossy path status %r" % (ext, lossy2[0])
            if lossy2[1] != len(model[3]):
                return "%s: %d deserialization errors, model %d" % (ext, lossy2[1], len(model[3]))
            if sorted(repr([e[0], e[1]]) for e in lossy2[2]) != berrs:
                return "%s: build errors differ from the model (kind, name multiset)" % ext
        if status == 1 and not skip_beh and norm_behaviour(beh) != pbeh:
            return "%s: logged output / rolled files differ from the programmatic equivalent" % ext
    return None


def known_finding(c, impl, model):
    return KNOWN if degenerate(dec_tree(c[0])) else None


def extra_checks(ctx, cases_, impl_lines, model_lines_):
    """the document's refresh rate is the interval the REAL refresh thread (started by the REAL init_file) asks to
    sleep, from its first poll on and after every kind of edit (C15's lock-step histories, kind 6): `refresh_rate`
    is one of the things C14 says a document means"""
    from gen import xcheck
    return (xcheck.borrow(ctx, "C15", "the refresh_rate of the document is the rate init_file's refresh thread runs at",
                          lambda c: c[0] == 6, n=90)
            # size limits, intervals and refresh rates written as strings or numbers mean the same number of bytes /
            # the same unit in a document as in the programmatic configuration (C20's literals, all three fields)
            + xcheck.borrow(ctx, "C20", "numeric literals of a document (limit, interval, refresh_rate)",
                            lambda c: True, n=2500, seed_salt=13)
            # a kind registered twice: the factory registered LAST is the one a document gets (C03's configuration-file
            # cases re-register `threshold`)
            + xcheck.borrow(ctx, "C03", "the deserializer registered last for a kind builds the document's component",
                            lambda c: len(c) == 6, n=200, seed_salt=31))
