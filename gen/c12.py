"""C12 — JSON encoder: one record, one line, fields round-trip exactly.
case: ( level pieces module file line target thread mdc )
  level 1..5; pieces: 1..3 strings written one after another by the message's Display;
  module/file/thread: () absent | ( str ); line: () | ( n ); mdc: ( (key value) ... ), keys distinct
  optional 9th element history = ( n ... ): before the observed encode the same thread encodes a marker
  record once per entry into a writer that fails after accepting n bytes (0 = the first write fails)
impl observable: ( output_bytes thread_id ( mdc keys in log_mdc iteration order ) )
model input: the case with the MDC put in the observed iteration order, plus the time text
  found in the output and the observed thread id (neither is constrained by the property)."""
import json
import re

LEVELS = {1: "ERROR", 2: "WARN", 3: "INFO", 4: "DEBUG", 5: "TRACE"}

RULE = ("sweep: each of the 128 ASCII code points and 24 chosen non-ASCII scalars (U+0080, U+0085, U+009F, "
        "U+00E9, U+07FF, U+0800, U+2028, U+2029, U+D7FF, U+E000, U+FEFF, U+FFFD, U+FFFF, U+10000, U+1F600, "
        "U+10FFFF, ...) placed alone and between letters in every text position (message, module path, "
        "file, target, thread name [no NUL], MDC key, MDC value); every level x every present/absent "
        "combination of module/file/line/thread x MDC sizes 0-4; line in {0, 1, 4294967295, random}; "
        "then random records whose strings are drawn with a bias to quotes, backslashes, the 32 control "
        "characters, DEL, U+2028, astral characters, embedded LF / CRLF, text that looks like JSON or like "
        "escapes (backslash-u-0041, a forged second log line), messages written in 1-3 Display pieces, a "
        "few multi-kilobyte messages; two-step histories: the same thread first encodes 1-3 marker records "
        "into a writer that fails at its first write or after 1..400 accepted bytes, then the observed "
        "record into a good writer (each encode call is one record, one line, whatever failed before); a length "
        "sweep (messages of n plain bytes followed by an escaped character, plain messages and two-piece messages "
        "for n = 0..2299 (thorough 3399) [quick: the ~105 lengths around every multiple of 128]) so that every byte offset of the "
        "line is the end of some writer call. For records with MDC entries the encode is repeated into a sink that "
        "refuses exactly one write call, for every position of that call (WouldBlock / Interrupted alternating): an Ok result must come with the complete line, an interrupted call must not fail the encode. "
        "MDC maps of 15 .. 4097 (thorough 8193) entries (counts at and around every power of two, 768, 3 x 256). "
        "non-trivial = some string contains a byte that must be escaped "
        "(quote, backslash, < 0x20); distinct = distinct case line")
ASSUMPTIONS = [
    "strings reaching the encoder are valid UTF-8 (Rust str); the theorems hold for arbitrary bytes",
    "thread names contain no NUL (std::thread::Builder rejects them)",
    "MDC keys are distinct (log_mdc is a HashMap); the MDC is compared in the iteration order the harness observes immediately before the encode call",
    "the time text and the numeric thread id are taken from the run (the property does not constrain them); the time text must still be an RFC 3339 timestamp",
    "unix NEWLINE (one byte 0x0A)",
    "the encoder is modelled as stateless: histories of failed encodes on the same thread are run on the real crate only and must not change the observed output",
]
TRUSTED = ["Python's json module (strict mode) as the independent parser of the direct round-trip oracle",
           "serde_json 1.0.151's escaping table and compact formatter, read from its source and modelled in Model/Json.v"]
RELEASE_TOO = True          # the cases also run through the release-profile harness (see ./check)
EXHAUSTIVE = {"quick": False, "thorough": False}

SPECIAL = [0x80, 0x85, 0x9F, 0xA0, 0xE9, 0x7FF, 0x800, 0x2028, 0x2029, 0xD7FF, 0xE000, 0xFEFF, 0xFFFD,
           0xFFFE, 0xFFFF, 0x10000, 0x1F600, 0x1D11E, 0xE0001, 0x10FFFF, 0x0301, 0x200B, 0x202E, 0xFF02]
HOT = (['"', "\\", "\n", "\r\n", "\r", "\t", "\b", "\f", "\x00", "\x1f", "\x7f", "\u2028", "\u2029",
        "\U0001F600", "\U0010FFFF", "\u00e9", "/", "\\u0041", "\\n", '\\"', "\\\\", "null", "{", "}", ",",
        ":", "[", "]", " ", "'", "\x1b[31m", "\u0085", "\ufeff"]
       + [chr(i) for i in range(32)])
INJECT = '\n{"time":"2020-01-01T00:00:00+00:00","level":"ERROR","message":"forged"}'
TIME_RE = re.compile(rb'^\{"time":"([^"\\]*)"')
RFC3339 = re.compile(r"^\d{4}-\d\d-\d\dT\d\d:\d\d:\d\d(\.\d+)?(Z|[+-]\d\d:\d\d)$")


def rstr(rng, lo=0, hi=8, nul=True):
    n = rng.range(lo, hi)
    out = []
    for _ in range(n):
        k = rng.below(10)
        if k < 5:
            ch = rng.choice(HOT)
        elif k < 8:
            ch = rng.choice("abcxyzABC019 _-.:")
        elif k == 8:
            ch = chr(rng.choice(SPECIAL))
        else:
            cp = rng.below(0x110000)
            ch = chr(cp) if not (0xD800 <= cp <= 0xDFFF) else "\ufffd"
        out.append(ch)
    s = "".join(out)
    if not nul:
        s = s.replace("\x00", "\x01")
    return s


def opt(x):
    return [] if x is None else [x]


def mk(level=3, pieces=("m",), module=None, file=None, line=None, target="t", thread=None, mdc=()):
    return [level, list(pieces), opt(module), opt(file), opt(line), target, opt(thread),
            [[k, v] for (k, v) in mdc]]


def rmdc(rng, n):
    keys = []
    while len(keys) < n:
        k = rstr(rng, 0, 5)
        if k not in keys:
            keys.append(k)
    return [(k, rstr(rng, 0, 6)) for k in keys]


def with_history(case, hist):
    return list(case) + [list(hist)]


def corpus():
    return [
        mk(),
        with_history(mk(3, ["second"], mdc=[("k", "v")]), [0]),
        with_history(mk(2, ["second"], thread="w"), [17, 0, 300]),
        mk(1, ['a"b\\c\n\x01\x7f'], line=7, mdc=[('k"', "\r\n"), ("", "\u2028")]),
        mk(2, ["x" + INJECT], module="m::n", file="src/a.rs", line=0, thread="main"),
        mk(5, ["", "\n", ""], thread=""),
    ]


def cases(rng, tier):
    out = []
    thorough = tier != "quick"
    # 1. single-character sweep over every text position
    chars = [chr(i) for i in range(128)] + [chr(c) for c in SPECIAL]
    for idx, ch in enumerate(chars):
        for form in (ch, "a" + ch + "b"):
            tn = form.replace("\x00", "\x01")
            out.append(mk(1 + idx % 5, [form]))
            out.append(mk(1 + idx % 5, ["p"], module=form, file=form, line=idx, target=form, thread=tn))
            out.append(mk(1 + idx % 5, ["p", form], mdc=[(form, "v"), ("K0", form)]))
    # 2. structure sweep
    for lvl in range(1, 6):
        for mask in range(16):
            for nm in range(0, 5):
                out.append(mk(lvl, ["msg"],
                              module="mod::p" if mask & 1 else None,
                              file="f.rs" if mask & 2 else None,
                              line=[0, 1, 4294967295, 42, 100][nm] if mask & 4 else None,
                              target="tgt",
                              thread="th-%d" % nm if mask & 8 else None,
                              mdc=[("k%d" % i, "v%d" % i) for i in range(nm)]))
    # 3. random records
    n_rand = 3000 if not thorough else 60000
    for _ in range(n_rand):
        np_ = rng.choice([1, 1, 1, 2, 3])
        pieces = [rstr(rng, 0, 8) for _ in range(np_)]
        if rng.chance(1, 40):
            pieces[0] += INJECT
        out.append(mk(rng.range(1, 5), pieces,
                      module=rstr(rng, 0, 6) if rng.chance(1, 2) else None,
                      file=rstr(rng, 0, 6) if rng.chance(1, 2) else None,
                      line=rng.choice([0, 1, 4294967295, rng.below(1 << 32), rng.below(1000)]) if rng.chance(1, 2) else None,
                      target=rstr(rng, 0, 6),
                      thread=rstr(rng, 0, 6, nul=False) if rng.chance(2, 3) else None,
                      mdc=rmdc(rng, rng.below(5))))
    # 3d. lines whose length is EXACTLY a multiple of a power-of-two block (8192, 16384; thorough: 4096, 32768 too):
    # consecutive message lengths over a window wide enough to contain the one that makes the object end on the
    # block boundary, whatever the lengths of the time stamp and the thread id of the run are
    for block in ([8192, 16384] if tier == "quick" else [4096, 8192, 16384, 32768]):
        for L in range(block - 230, block - 110):
            out.append(mk(3, ["m" * (L // 2), "n" * (L - L // 2)], target="t"))
    # 3e. wide MDC maps: entry counts at and around every power of two up to 2^12 (thorough 2^13; the extracted model's
    # non-tail-recursive list functions set the limit) (any counter or size hint narrower
    # than the map shows at its wrap-around), twice 256 and 3 x 256 as well; short distinct keys
    for n in ([15, 16, 17, 127, 128, 129, 255, 256, 257, 511, 512, 513, 768, 1024, 4095, 4096, 4097] if tier == "quick" else
              sorted(set([b + d for b in (16, 32, 64, 128, 256, 512, 768, 1024, 1280, 2048, 4096, 8192) for d in (-1, 0, 1)]))):
        out.append(mk(3, ["wide"], target="t", mdc=[("k%x" % i, "%d" % (i % 10)) for i in range(n)]))
    # 3c. the MDC entries are inserted by the MESSAGE while it is formatted (10th element 1; empty history as 9th)
    for _ in range(150 if tier == "quick" else 2000):
        base = rng.choice(out)
        if base[7] and base[1]:
            out.append(list(base[:8]) + [[], 1])
    # 3b. histories of failed encodes on the same thread before the observed one
    for i in range(300 if not thorough else 3000):
        hist = [rng.choice([0, 0, 1, 2, 8, 9, 10, rng.below(60), rng.below(400)]) for _ in range(rng.range(1, 3))]
        base = out[rng.below(len(out))] if rng.chance(1, 2) else mk(rng.range(1, 5), [rstr(rng, 0, 8)], mdc=rmdc(rng, rng.below(3)))
        out.append(with_history(base[:8], hist))
    # 4. a few long messages (several fragments inside serde_json's run batching)
    for _ in range(10 if not thorough else 100):
        out.append(mk(rng.range(1, 5), ["".join(rstr(rng, 3, 8) for _ in range(rng.range(50, 400)))],
                      mdc=rmdc(rng, rng.below(3))))
    # 5. length sweep: the line's byte offsets 64..1100 are each hit as the END of a writer call
    # (the unescaped run before an escaped character ends at prefix + n for every n in the sweep; a plain
    # message of every length; two Display pieces meeting at every offset): internal buffers with a
    # power-of-two size (128, 256, 512, 1024) must not show
    step = 1 if thorough else 1
    for n in range(0, 3400 if thorough else 2300, step):
        if not thorough and not (40 <= n % 128 <= 127 or n % 128 <= 8):
            continue          # quick: the 70+9 lengths around each multiple of 128 (prefix is 60-85 bytes)
        out.append(mk(3, ["a" * n + '"' + "b" * 20]))
        if n % 2 == 0:
            out.append(mk(2, ["c" * n]))
            out.append(mk(4, ["d" * n, "\\" + "e" * 9], thread="thr"))
    return out


def run_impl(ctx, cases_, lines):
    """three harness processes under different locales (LC_ALL=C / LANG=ja_JP.eucJP + LC_CTYPE=de_DE.ISO-8859-1 /
    LC_ALL=en_US.UTF-8): the JSON line does not depend on the locale"""
    from concurrent.futures import ThreadPoolExecutor
    vc = ctx["vc"]
    envs = []
    for extra in ({"LC_ALL": "C"}, {"LANG": "ja_JP.eucJP", "LC_CTYPE": "de_DE.ISO-8859-1"}, {"LC_ALL": "en_US.UTF-8"}):
        e = dict(vc.ENV)
        for k in ("LC_ALL", "LC_CTYPE", "LANG"):
            e.pop(k, None)
        e.update(extra)
        envs.append(e)
    parts = [list(range(k, len(lines), 3)) for k in range(3)]
    res = [None] * len(lines)
    with ThreadPoolExecutor(max_workers=3) as ex:
        outs = list(ex.map(lambda k: vc.run_lines([ctx["vh"]], [lines[i] for i in parts[k]], timeout_per_batch=900,
                                                  env=envs[k]), range(3)))
    for k in range(3):
        for i, g in zip(parts[k], outs[k]):
            res[i] = g
    return res


def _b(x):
    return x if isinstance(x, (bytes, bytearray)) else x.encode("utf-8")


def _texts(c):
    lvl, pieces, mo, fi, li, tgt, th, mdc = c[:8]
    ts = list(pieces) + list(mo) + list(fi) + [tgt] + list(th)
    for k, v in mdc:
        ts += [k, v]
    return [_b(t) for t in ts]


def nontrivial(c):
    return any(any(b < 32 or b in (34, 92) for b in t) for t in _texts(c))


def classify(c):
    lvl, pieces, mo, fi, li, tgt, th, mdc = c[:8]
    return "opt=%d%d%d%d mdc=%d%s" % (len(mo), len(fi), len(li), len(th), len(mdc),
                                      " after-failed-encodes" if len(c) > 8 else "")


def describe(c):
    lvl, pieces, mo, fi, li, tgt, th, mdc = c[:8]
    hist = list(c[8]) if len(c) > 8 else []

    def s(x):
        return _b(x).decode("utf-8", "replace")
    return {"level": LEVELS.get(lvl, lvl), "message_pieces": [s(p) for p in pieces],
            "module_path": s(mo[0]) if mo else None, "file": s(fi[0]) if fi else None,
            "line": li[0] if li else None, "target": s(tgt), "thread": s(th[0]) if th else None,
            "mdc": [[s(k), s(v)] for k, v in mdc],
            "failed_encodes_before_on_same_thread (bytes accepted before the writer fails)": hist}


def model_lines(ctx, cases_, lines, impl_lines):
    vc = ctx["vc"]
    out = []
    for c, il in zip(cases_, impl_lines):
        time, tid, mdc = b"", 0, [[_b(k), _b(v)] for k, v in c[7]]
        try:
            iv = vc.parse(il)
            if isinstance(iv, list) and len(iv) == 3 and isinstance(iv[0], bytes):
                m = TIME_RE.match(iv[0])
                if m:
                    time = m.group(1)
                tid = iv[1]
                d = dict((k, v) for k, v in mdc)
                if sorted(iv[2]) == sorted(d):
                    mdc = [[k, d[k]] for k in iv[2]]
        except Exception:
            pass
        out.append(vc.show(list(c[:7]) + [mdc, time, tid]))
    return out


def _pairs(ps):
    keys = [k for k, _ in ps]
    if len(set(keys)) != len(keys):
        raise ValueError("duplicate key in object: %r" % keys)
    return dict(ps)


def direct_oracle(c, out, tid):
    """the property itself, with Python's json as the independent parser"""
    lvl, pieces, mo, fi, li, tgt, th, mdc = c[:8]
    if not out.endswith(b"\n"):
        return "output does not end with a newline"
    if out.count(b"\n") != 1:
        return "output contains %d newline bytes" % out.count(b"\n")
    body = out[:-1]
    if any(b < 32 for b in body):
        return "raw control byte inside the line"
    try:
        text = body.decode("utf-8")
    except UnicodeDecodeError:
        return "line is not valid UTF-8"
    try:
        obj = json.loads(text, object_pairs_hook=_pairs)
    except ValueError as e:
        return "line is not one JSON object: %s" % e
    if not isinstance(obj, dict):
        return "line is not a JSON object"

    def s(x):
        return _b(x).decode("utf-8")
    want = {"level": LEVELS[lvl], "message": "".join(s(p) for p in pieces), "target": s(tgt),
            "thread": s(th[0]) if th else None, "thread_id": tid,
            "mdc": dict((s(k), s(v)) for k, v in mdc)}
    if mo:
        want["module_path"] = s(mo[0])
    if fi:
        want["file"] = s(fi[0])
    if li:
        want["line"] = li[0]
    t = obj.pop("time", None)
    if not isinstance(t, str) or not RFC3339.match(t):
        return "time member missing or not RFC 3339: %r" % (t,)
    if obj != want:
        for k in sorted(set(obj) | set(want)):
            if k not in obj:
                return "member %r missing" % k
            if k not in want:
                return "unexpected member %r = %r (absent fields must be omitted)" % (k, obj[k])
            if obj[k] != want[k] or type(obj[k]) is not type(want[k]):
                return "member %r reads back as %r, record has %r" % (k, obj[k], want[k])
    for k in ("line", "thread_id"):
        if k in obj and (type(obj[k]) is not int):
            return "member %r is not an integer" % k
    return None


def judge(c, iv, mv):
    """('ok', None) | ('fail', text): the property fails on this case | ('corr', text): the line still
    denotes exactly the record but its bytes are not the model's (e.g. members reordered)"""
    if isinstance(iv, list) and len(iv) == 4 and isinstance(iv[3], int) and iv[3] > 0:
        return ("fail", "a sink that refuses ONE write call (WouldBlock at every other position, an interrupted call - which "
                        "io::Write users restart - at the others): for %d position(s) of the refused call encode returned Ok "
                        "although what it wrote is not the record's line, or returned an error although the call was only "
                        "interrupted" % iv[3])
    if not (isinstance(iv, list) and len(iv) == 3 and isinstance(iv[0], bytes)):
        return ("fail", "encode failed or panicked: %r" % (iv,))
    out, tid, order = iv
    keys = sorted(_b(k) for k, _ in c[7])
    if sorted(order) != keys:
        return ("fail", "log_mdc iteration keys %r differ from the installed MDC %r" % (order, keys))
    d = direct_oracle(c, out, tid)
    if d is not None:
        return ("fail", d + ("" if out == mv else " [impl %r model %r]" % (out, mv)))
    if out != mv:
        return ("corr", "property oracle passes but bytes differ from the model: impl %r model %r" % (out, mv))
    return ("ok", None)


def compare(c, iv, mv):
    k, d = judge(c, iv, mv)
    return d if k == "fail" else None


def extra_checks(ctx, cases_, impl_lines, model_lines_):
    """(a) the model's own bytes must satisfy the direct JSON oracle too (model, Coq spec and Python's
    json agree); (b) DESIGN 2.4: if no case violates the property but some outputs differ from the
    model, the correspondence itself is broken (no failing input)"""
    vc = ctx["vc"]
    bad = []
    corr = None
    real = False
    for c, il, ml in zip(cases_, impl_lines, model_lines_):
        try:
            iv, mv = vc.parse(il), vc.parse(ml)
        except Exception:
            return []
        k, d = judge(c, iv, mv)
        if k == "fail":
            real = True
            continue
        if k == "corr" and corr is None:
            corr = d
        if k == "ok" and not bad:
            d = direct_oracle(c, mv, iv[1])
            if d is not None:
                bad.append(("model output fails the direct JSON oracle: " + d,
                            {"case_line": vc.show(c), "case": describe(c), "model": vc.jsonable(mv)}))
    if corr is not None and not real:
        raise vc.Broken("corr:C12/output-bytes", corr)
    return bad
