"""C13 — ConfigBuilder::build / build_lossy.
case: ( (appender-name ...) root_level (root-ref ...) ( (name level (ref ...) additive) ... ) )"""
import itertools

RULE = ("exhaustive: every logger name over {a,:} up to length 7 alone and paired with a fixed partner "
        "(before and after it); appender lists over 3 names up to 4 items; then random mixes (up to 5 "
        "appenders with repeats, up to 6 loggers with repeated/malformed/unicode names, up to 3 references "
        "per owner over declared and undeclared names, all orders random); 12 (thorough 120) LARGE configurations of "
        "21-45 loggers and 9-30 appenders with duplicated / malformed / dangling items at random positions, and a pair of "
        "names colliding under 64-bit FNV-1a; then CONFUSABLE names: every "
        "ordered pair of appender names from a family differing only by surrounding/inner spaces, tabs, "
        "newlines, NBSP, case, '-' vs '_', accents, NFC/NFD or emptiness, each pair declared together and "
        "referenced by the root and by a logger through a third family member, the same for logger-name "
        "pairs, and random mixes drawn from these families. non-trivial = at least one "
        "offending item (duplicate, malformed name or dangling reference) AND at least one kept logger; "
        "distinct = distinct case line")
# names that a "tolerant" comparison (trim, case folding, separator or unicode normalisation) would
# identify although they are different strings; the model and the real code compare exactly
CONF_APPS = ["file", "file ", " file", " file ", "file\t", "\tfile", "file\n", "file\r\n", "file\u00a0", "file  ",
             "File", "FILE", "fi le", "fi-le", "fi_le", "fil\u00e9", "file\u0301", "fil\u0435", "", " ", "\t", "  "]
CONF_LOGGERS = ["a::b", "a::b ", " a::b", "a::b\t", "A::b", "a::B", "a ::b", "a:: b", "a: :b", "a::b\n", "a b",
                " ", "\t", "a-b::c", "a_b::c", "\u00e9::b", "e\u0301::b", "a::b::", " ::a", "a:: "]

ASSUMPTIONS = ["appender identity is observed through the recording appender's Debug output",
               "error ORDER is not constrained by the property: errors are compared as multisets"]
RELEASE_TOO = True          # the sampled cases also run through the release-profile harness (see ./check)
EXHAUSTIVE = {"quick": False, "thorough": False}


def names_upto(n):
    for k in range(0, n + 1):
        for t in itertools.product("a:", repeat=k):
            yield "".join(t)


def cases(rng, tier):
    out = []
    maxlen = 7 if tier == "quick" else 10
    for nm in names_upto(maxlen):
        out.append([["x"], 3, ["x"], [[nm, 4, ["x"], 1]]])
    for nm in names_upto(5):
        out.append([["x"], 3, [], [["a::a", 2, [], 0], [nm, 4, ["x", "y"], 1]]])
        out.append([["x"], 3, [], [[nm, 4, ["y", "x"], 1], ["a::a", 2, [], 0]]])
    for k in range(0, 5):
        for t in itertools.product(["p", "q", "r"], repeat=k):
            out.append([list(t), 1, ["p", "q", "z"], [["l", 5, ["r", "p", "w"], 1]]])
    # LARGE configurations: 21-45 loggers / 9-30 appenders with a few duplicated, malformed and dangling items at
    # random positions (first occurrence wins, whatever the size) - and two names that collide under 64-bit FNV-1a
    # (the hash the crate already uses for its appender map) declared together as appenders and as loggers
    FNV_PAIR = ["ajhhndhanpflopkj", "hcddmdbgkfljaffc"]
    for j in range(12 if tier == "quick" else 120):
        n_l = rng.range(21, 45)
        base_names = ["m%d" % i for i in range(n_l)] + ["m%d::sub" % i for i in range(0, n_l, 3)]
        names = [rng.choice(base_names) for _ in range(n_l)]
        for _d in range(rng.range(1, 4)):
            names.insert(rng.below(len(names) + 1), rng.choice(names))          # duplicates
        if rng.chance(1, 2):
            names.insert(rng.below(len(names) + 1), rng.choice(["bad:", "", "x:::y", "t::"]))
        n_a = rng.range(9, 30)
        apps = ["ap%d" % rng.below(n_a) for _ in range(n_a)]
        refpool = apps + ["nowhere", "ap%d" % (n_a + 3)]
        ls = [[nm, rng.below(6), [rng.choice(refpool) for _ in range(rng.below(3))], rng.below(2)] for nm in names]
        out.append([apps, rng.below(6), [rng.choice(refpool) for _ in range(rng.below(4))], ls])
    for a, b in (FNV_PAIR, FNV_PAIR[::-1]):
        out.append([[a, b], 3, [a, b], [["l", 4, [b, a], 1]]])
        out.append([["x"], 3, ["x"], [[a, 4, ["x"], 1], [b, 2, ["x"], 0]]])
        out.append([[a], 3, [b], [["l", 4, [b, a], 1]]])          # a dangling reference that collides with a declared name
    pool_names = ["a", "b", "a::b", "a::b::c", "::a", "a::", ":", "", "a:b", "a:::b", "é", "é::ü", "ab", "a::bx",
                  "a::::b", "::", "b::a", "x::y::z", "a::b::", ":a"]
    pool_apps = ["p", "q", "r", "s", "é"]
    n_rand = 1500 if tier == "quick" else 30000
    for _ in range(n_rand):
        apps = [rng.choice(pool_apps[:rng.range(1, 5)]) for _ in range(rng.below(6))]
        refpool = pool_apps + ["nope", ""]
        root_refs = [rng.choice(refpool) for _ in range(rng.below(4))]
        ls = []
        for _l in range(rng.below(7)):
            nm = rng.choice(pool_names[:rng.range(2, len(pool_names))])
            ls.append([nm, rng.below(6), [rng.choice(refpool) for _ in range(rng.below(4))], rng.below(2)])
        out.append([apps, rng.below(6), root_refs, ls])
    # long runs of one character in a logger name (any counter the name check keeps must not wrap): runs of
    # 254..258, 510..514 and 65534..65538 colons / letters, leading, trailing and in the middle
    runs = [254, 255, 256, 257, 258, 510, 511, 512, 513, 514] + ([65534, 65535, 65536, 65537, 65538] if tier != "quick" else [65536, 65538])
    for n in runs:
        # (names of many SEGMENTS stay below 300 segments: ConfiguredLogger::add / max_log_level / drop recurse once
        #  per segment, and a name of ~30000 segments overflows the stack - a resource limit outside the property's
        #  "names up to a length bound", noted in DESIGN 12.2, not a check of this property)
        deep = ["::".join(["s"] * (n // 2)), "::".join(["s"] * (n // 2)) + ":"] if n <= 514 else []
        for nm in [":" * n, "a" + ":" * n, ":" * n + "a", "a" + ":" * n + "b", "a::b" + ":" * n, "a" * n, "a" * n + "::" + "b" * n] + deep:
            out.append([["p"], 3, ["p"], [[nm, 4, ["p"], 1], ["ok", 2, [], 0]]])
    # confusable appender names / references (exact comparison is what Logger::new relies on)
    fam = CONF_APPS if tier != "quick" else CONF_APPS[:16] + CONF_APPS[18:20]
    for i, x in enumerate(fam):
        for j, y in enumerate(fam):
            z = fam[(i + j + 1) % len(fam)]
            out.append([[x, y], 3, [y, z], [["l", 4, [x, z], 1]]])
            if i != j:
                out.append([[x], 3, [y], [["l", 4, [y, x], 0]]])
    lf = CONF_LOGGERS
    for i, x in enumerate(lf):
        for j, y in enumerate(lf):
            out.append([["p"], 3, ["p"], [[x, 4, ["p"], 1], [y, 2, [], 0]]])
    n_conf = 600 if tier == "quick" else 20000
    for _ in range(n_conf):
        base = rng.choice(CONF_APPS)
        near = [base, base + " ", " " + base, base.strip(), base.upper(), base.replace("-", "_"), base + "\t"]
        pool = near + [rng.choice(CONF_APPS) for _ in range(2)]
        apps = [rng.choice(pool) for _ in range(rng.range(1, 4))]
        root_refs = [rng.choice(pool) for _ in range(rng.below(4))]
        ls = []
        for _l in range(rng.below(4)):
            nm = rng.choice(CONF_LOGGERS) if rng.chance(1, 2) else rng.choice(pool_names)
            if rng.chance(1, 4):
                nm = rng.choice([nm + " ", " " + nm, nm.upper(), nm + "\t"])
            ls.append([nm, rng.below(6), [rng.choice(pool) for _ in range(rng.below(4))], rng.below(2)])
        out.append([apps, rng.below(6), root_refs, ls])
    return out


def _offending(c):
    apps, lvl, rr, ls = c
    if len(set(apps)) != len(apps):
        return True
    if any(r not in apps for r in rr):
        return True
    seen = set()
    for nm, _, refs, _ in ls:
        if nm in seen or not _wf(nm) or any(r not in apps for r in refs):
            return True
        seen.add(nm)
    return False


def _wf(nm):
    if nm == "" or nm.endswith(":"):
        return False
    import re
    return all(len(run) == 2 for run in re.findall(r":+", nm))


def nontrivial(c):
    return _offending(c) and any(_wf(l[0]) for l in c[3])


def classify(c):
    return "apps=%d loggers=%d offending=%s" % (len(c[0]), len(c[3]), _offending(c))


def describe(c):
    apps, lvl, rr, ls = c
    return {"appenders": apps, "root_level": lvl, "root_refs": rr,
            "loggers": [{"name": l[0], "level": l[1], "refs": l[2], "additive": bool(l[3])} for l in ls]}


def _strip(cfg, c):
    """check first-occurrence identity of kept appenders; return config without indices"""
    apps = c[0]
    names = []
    for nm, idx in cfg[0]:
        s = nm.decode("utf-8", "replace")
        first = apps.index(s) if s in apps else -1
        if idx != first:
            return None
        names.append(nm)
    return [names] + list(cfg[1:])


def compare(c, impl, model):
    if not isinstance(impl, list) or len(impl) != 4:
        return "implementation result malformed / panicked: %r" % (impl,)
    lossy, errs, strict, ok = impl
    if ok != 1:
        return "installing/logging through a returned configuration panicked"
    l2 = _strip(lossy, c)
    if l2 is None:
        return "a kept appender is not the first declaration of its name"
    if l2 != model[0]:
        return "lossy configuration differs from the model"
    if sorted(map(repr, errs)) != sorted(map(repr, model[1])):
        return "reported errors differ (as multisets)"
    if len(strict) != len(model[2]):
        return "strict build outcome differs (Ok vs Err)"
    if strict:
        s2 = _strip(strict[0], c)
        if s2 is None or s2 != model[2][0]:
            return "strict configuration differs from the model"
    return None


def extra_checks(ctx, cases, impl_lines, model_lines):
    from gen import xcheck
    res = xcheck.concurrent_reconfig(ctx, "a built configuration installed and logged through while another thread logs", levels=False, plain=True)
    if res:
        return res
    # ... and logged through when appenders fail and the error handler itself logs (C03's re-entrant histories)
    res = xcheck.borrow(ctx, "C03", "a configuration logged through while appenders fail and the error handler logs",
                        lambda c: len(c) == 5, n=150)
    if res:
        return res
    # the same accept/keep decisions when the configuration arrives as a DOCUMENT (RawConfig -> ConfigBuilder): logger
    # and appender names are taken over character for character (my-svc is not my_svc), lossy loading keeps exactly
    # the valid items - C14's renderings and mutations in the three formats
    res = xcheck.borrow(ctx, "C14", "names and items of a configuration document reach the builder unchanged",
                        lambda c: True, n=150, seed_salt=17)
    if res:
        return res
    # "can be installed": installed through set_config over a running logger, also right after a reconfiguration
    # whose outgoing component panicked in its Drop (C15's swap histories and drop probes)
    return xcheck.borrow(ctx, "C15", "a built configuration installed over a running logger (set_config)",
                         lambda c: c[0] in (0, 2), n=120, seed_salt=19)
