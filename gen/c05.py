"""C05 — rolling appender never loses, duplicates, reorders or splits records.
case format / comparison: gen/rollcommon.py (shared with C06, C17)."""
import sys
from gen import rollcommon as rc
from gen.rollcommon import model_lines, compare, classify, describe, extra_coverage  # noqa: F401

RULE = ("random histories of up to 30 ops on the real RollingFileAppender: trigger in {SizeTrigger(limit around the "
        "record sizes, 0, 1024+-1), OnStartUpTrigger(min 0..6), scripted user Trigger pre-/post-processing whose i-th "
        "consultation fires iff threshold_i <= len (always / never / size-dependent)} x roller in {DeleteRoller, "
        "FixedWindowRoller base in {0,1,7}, count in 0..4, plain, .gz and .zst}; ops: append (tagged records, multi-byte "
        "UTF-8 filler, 0-3 encoder chunks split at arbitrary bytes, sizes 0..12 and in ~8% of the cases around the "
        "1 KiB buffer: 1023/1024/1025/2100), restart (append mode; truncate mode in ~10% of the cases, then only the "
        "model comparison applies), burst of 2-4 threads x 1-4 tagged records; in an eighth of the histories a third of "
        "the appends carry a NESTED record (and a seventh of the appends under the real time trigger meet a FAILING roller: "
        "the boundary is consumed, the record is not written, the next record is an ordinary one): the encoder or the roller of the call appends it to a second rolling "
        "appender (size trigger 10 bytes, window of 2) from inside the call - that appender must store and rotate as "
        "always (stream and size oracles). After EVERY op the whole directory "
        "(names -> gunzipped bytes) and every policy consultation is compared with the model; independently the files "
        "read oldest archive..active must be a suffix of the acknowledged records cut at a record boundary with file "
        "boundaries on record boundaries, nothing missing while rotations <= count. Window patterns carry the index in the file name, "
        "in a directory component and the file name, or in a directory component only; a quarter of the window rollers keep "
        "their archives on ANOTHER file system (a symlinked directory on /dev/shm or /tmp: rename is refused with EXDEV, so "
        "move_file's copy+delete fall-back and cross-mount compression run). "
        "HOT RESTART family (150 quick / 2500 thorough): a second appender is built on the same path while the old "
        "instance keeps acknowledging records (ops: hot restart, append through the old instance, drop old), with a "
        "scripted trigger that never fires while two instances are alive; the model sees one O_APPEND stream; the "
        "stale len of the overlapping instances is not compared. "
        "BACKGROUND ROTATION family (250 quick / 3000 thorough) through a second harness build with the crate's "
        "`background_rotation` feature: window rollers with count >= 1, triggers firing at almost every append, "
        "bursts (also of one thread = back-to-back appends) so that several roll-overs fall into one wall-clock "
        "second while the previous rotation (1/6 of the cases: gzip of a 12-40 KB file) is still running; after "
        "every op a consistent 'pending' snapshot is taken at once (every retained record must be in some archive, "
        "temp or active file; for plain appends and restarts it must be one of the states of the background-rotation "
        "machine coq/Model/RollingBg.v), then the driver waits until no temp file is left and compares the directory with "
        "the synchronous model and the suffix oracle. EXPLORATION (60 quick / 600 thorough), a fault at the "
        "archive step, which is C08's subject: gzip roller with count 1 whose archive slot is a symlink to /dev/full "
        "while the first records arrive - rotations attempted meanwhile must make append return Err and keep the "
        "active file (model: append with a failing roller), after healing nothing acknowledged may be missing. "
        "Files rolled at exactly 2^15, 2^16, 2^16+-1 and 2^17 bytes (thorough: 2^12..2^18), plain and .gz, archives beside "
        "the log and on another file system. One lifetime of 520 appends under an on-start-up trigger. non-trivial = at least 2 records "
        "and a trigger able to fire; distinct = distinct case line")
ASSUMPTIONS = [a for a in rc.COMMON_ASSUMPTIONS if not a.startswith("synchronous rotation")] + [
    "background_rotation: proved for the interleaving machine of coq/Model/RollingBg.v (the appender's file-system "
    "calls against the rename steps of the rotation thread, spawn blocked while a rotation is in flight): under every "
    "schedule the quiescent directory is the synchronous model's (C05_background_quiescent_is_sync, "
    "C05_background_anytime). Tie to the code: the feature build's directory at quiescent points must equal the "
    "synchronous model's, and the snapshot taken right after each call returned (rotation thread possibly running) "
    "must be one of the machine's states (0..all rotation steps done; for gzip additionally 'archive written, temp not "
    "yet removed'). The real thread schedule is sampled, the condvar/spawn protocol is modelled, temp names are "
    "assumed not to exist when picked (the loop in make_temp_file_name exits on exactly that)",
    "hot restart: two live instances on one path are covered only while no rotation happens during the overlap "
    "(a rotation under a second open handle sends that instance's records to the archived file - outside the "
    "property, which speaks of restarts)",
]
RELEASE_TOO = True          # the cases also run through the release-profile harness (see ./check)
EXHAUSTIVE = {"quick": False, "thorough": False}


def corpus():
    return [
        [[0, 5], [1, 1, 2, 0], [1, b"ab"], 1,
         [[0, [b"123"]], [0, [b"4", b"5"]], [0, [b"6"]], [1, 1], [0, [b"789012"]],
          [2, [[[b"A"], [b"B"]], [[b"C"]]]]]],
        [[2, 1, [0, rc.NEVER, 0, 3]], [1, 0, 1, 1], [0], 1,
         [[0, [b"aa"]], [0, [b"bb"]], [0, [b"cc"]], [0, [b"dd"]], [0, [b"ee"]]]],
        [[3, 5, 0, 1700000040], [1, 0, 2, 0], [1, b"ab"], 1,
         [[0, [b"1"]], [3, 1700000045], [0, [b"2"]], [0, [b"3"]], [3, 1700000049], [0, [b"4"]],
          [3, 1700000050], [0, [b"5"]], [1, 1], [3, 1700000054], [0, [b"6"]], [3, 1700000055],
          [2, [[[b"A"]], [[b"B"]], [[b"C"]]]]]],
        # index in a directory component and in the file name; three rotations
        [[0, 3], [1, 0, 3, 0, 1, 0], [0], 1, [[0, [b"aaaa"]], [0, [b"bbbb"]], [0, [b"cccc"]], [0, [b"dd"]]]],
        # hot restart: the old instance acknowledges two more records, then the new one writes
        [[2, 0, []], [1, 0, 2, 0, 0, 0], [0], 1,
         [[0, [b"r0;"]], [0, [b"r1;"]], [4, 1], [5, [b"r2;"]], [5, [b"r3;"]], [0, [b"r4;"]], [6], [0, [b"r5;"]]]],
        # background rotation: two roll-overs back to back behind a slow (gzip of 32 KiB) first rotation
        [[0, 0], [1, 0, 3, 1, 0, 1], [1, bytes(range(256)) * 128], 1,
         [[2, [[[b"one"], [b"two"], [b"three"]]]], [0, [b"four"]]]],
        # archive slot on /dev/full: the over-limit append returns Err and keeps the file; healed, all is archived
        [[0, 4], [1, 0, 1, 1, 0, 0], [0], 1,
         [[8], [0, [b"abc"]], [0, [b"def"]], [0, [b"g"]], [9], [0, [b"h"]], [0, [b"ijklm"]]]],
        [[2, 0, [0, 0, rc.NEVER, 0, 0, 0]], [1, 7, 3, 1], [1, b"old"], 1,
         [[0, [b"r1"]], [0, [b"r", b"2"]], [0, [b"r3"]], [0, [b"r4"]], [0, [b"r5"]], [0, [b"r6"]]]],
    ]


def prepare(ctx):
    vc = ctx["vc"]
    ctx["vh"] = vc.build_harness("c05")
    ctx["vh_bg"] = vc.build_harness("c05", features="background_rotation")


def run_impl(ctx, cases, lines):
    """default build for the synchronous cases, the `background_rotation` build for the cases whose roller
    carries the bg flag; results merged back in case order"""
    idx_bg = [i for i, c in enumerate(cases) if rc.bg_of(c[1])]
    idx_sync = [i for i, c in enumerate(cases) if not rc.bg_of(c[1])]
    out = [None] * len(cases)
    if ctx.get("release_pass"):
        # (the release-profile pass of ./check: only the default build has a release binary; the bg cases ran once)
        for i in idx_bg:
            out[i] = "xskipped"
        idx_bg = []
    for idxs, key in ((idx_sync, "vh"), (idx_bg, "vh_bg")):
        sub = dict(ctx, vh=ctx[key])
        got = rc.run_impl(sub, [cases[i] for i in idxs], [lines[i] for i in idxs])
        for i, g in zip(idxs, got):
            out[i] = g
    return out


def hot_case(rng):
    """overlapping appender instances on one path (a replacement is built while the old instance is still in
    service, as a reconfiguration does); scripted user trigger whose decisions do not depend on the length
    shown and which never fires while two instances are alive (a rotation under a second open handle is
    outside the property: the other instance keeps writing to the archived file)"""
    pre_t = rng.below(2)
    roller = gen_roller(rng)
    pre = [0] if rng.chance(1, 2) else [1, rc.rec_bytes(rng, "pre", rng.choice([0, 1, 4, 9]))]
    ops, script, rid, overlap = [], [], 0, False

    def app(kind):
        nonlocal rid
        sz = rng.choice([1, 2, 3, 5, 8, 12, rng.range(4, 10)])
        ops.append([kind, rc.chunked(rng, rc.rec_bytes(rng, "%d" % rid, sz))])
        rid += 1
        script.append(rc.NEVER if overlap else rng.choice([0, rc.NEVER, rc.NEVER]))
    for _ in range(rng.range(1, 4)):
        app(0)
    for _ in range(rng.range(1, 3)):
        ops.append([4, 1])
        overlap = True
        for _ in range(rng.range(1, 5)):
            app(rng.choice([0, 5, 5]))
        ops.append([6] if rng.chance(3, 4) else [1, 1])
        overlap = False
        for _ in range(rng.range(1, 5)):
            app(0)
    return [[2, pre_t, script], roller, pre, 1, ops]


def bg_case(rng):
    """a history for the `background_rotation` build: window roller with count >= 1, rotations in quick
    succession (triggers that fire at almost every append; bursts, also of ONE thread, issue several appends
    back to back so that two roll-overs fall into the same wall-clock second while the previous background
    rotation is still busy - in 1/6 of the cases made slow by a pre-existing file of 12-40 KB that has to be gzipped)"""
    slow = rng.chance(1, 6)
    gz = 1 if slow else rng.below(2)
    roller = [1, rng.choice([0, 1, 7]), rng.choice([1, 1, 2, 3, 4]), gz, rng.choice([0, 0, 1, 2]), 1]
    k = rng.below(6)
    if k < 3:
        trig = [0, rng.choice([0, 1, 3, 8])]
    elif k == 3:
        trig = [1, rng.choice([0, 1, 4])]
    else:
        trig = [2, rng.below(2), [rng.choice([0, 0, 0, rc.NEVER]) for _ in range(60)]]
    if slow:
        pre = [1, rc.rec_bytes(rng, "pre", rng.choice([12000, 24000, 40000]))]
    else:
        pre = [0] if rng.chance(1, 2) else [1, rc.rec_bytes(rng, "pre", rng.choice([0, 3, 9]))]
    ops, rid = [], 0
    for _ in range(rng.range(2, 5) if slow else rng.range(2, 10)):
        k = rng.below(10)
        if k == 0:
            ops.append([1, 1])
        elif k < 4:
            nthreads = rng.choice([1, 1, 2, 3])
            threads = [[rc.chunked(rng, rc.rec_bytes(rng, "%d.%d.%d" % (rid, t, r), rng.range(4, 10)))
                        for r in range(rng.range(2, 4) if nthreads == 1 else rng.range(1, 3))]
                       for t in range(nthreads)]
            rid += 1
            ops.append([2, threads])
        else:
            ops.append(rc.op_append(rng, "%d" % rid, rng.choice([1, 2, 4, 6, 9, 12])))
            rid += 1
    return [trig, roller, pre, 1, ops]


def enospc_case(rng):
    """EXPLORATION (fault at the archive step; C08 is the property that owns it): gzip window roller with
    count 1 whose archive slot is a symlink to /dev/full while the first records arrive - every rotation
    attempted meanwhile must fail (append returns Err, active file kept), after healing everything is archived"""
    if rng.chance(1, 2):
        trig = [0, rng.choice([3, 8, 13])]
    else:
        trig = [2, rng.below(2), [rng.choice([0, rc.NEVER, rc.NEVER]) for _ in range(30)]]
    ops, rid = [[8]], 0
    for phase in range(2):
        for _ in range(rng.range(2, 8)):
            ops.append(rc.op_append(rng, "%d" % rid, rng.choice([1, 2, 4, 6, 9, 12])))
            rid += 1
        if phase == 0:
            ops.append([9])
    pre = [0] if rng.chance(1, 2) else [1, rc.rec_bytes(rng, "pre", rng.choice([0, 2, 7]))]
    return [trig, [1, rng.choice([0, 1, 7]), 1, 1, 0, 0], pre, 1, ops]


def gen_trigger(rng, big):
    k = rng.below(11)
    if k == 10:
        k = 9 if rng.chance(1, 2) else 0
    if k < 4:
        if big:
            return [0, rng.choice([1023, 1024, 1025, 2048])]
        return [0, rng.choice([0, 1, 3, 5, 8, 13, 21, 40])]
    if k < 6:
        return [1, rng.choice([0, 1, 2, 4, 6, 1024 if big else 3])]
    if k == 9:
        return [3, rng.choice([1, 2, 5, 7, 30]), rng.below(2), 1700000040 + rng.below(180)]
    pre = 1 if k < 7 else 0
    script = []
    for _ in range(rng.range(0, 40)):
        script.append(rng.choice([0, 0, rc.NEVER, rc.NEVER, rc.NEVER, rng.range(1, 12), 1024 if big else 5]))
    return [2, pre, script]


def gen_roller(rng):
    if rng.chance(1, 5):
        return [0]
    return [1, rng.choice([0, 1, 7]), rng.choice([0, 1, 1, 2, 2, 3, 4]), rng.choice([0, 0, 0, 1, 1, 2]), rng.choice([0, 0, 0, 1, 1, 2, 3, 3]), 0]


def cases(rng, tier):
    out = []
    n = 1500 if tier == "quick" else 18000
    for ci in range(n):
        big = rng.chance(2, 25)
        trig = gen_trigger(rng, big)
        roller = gen_roller(rng)
        pre = [0] if rng.chance(1, 2) else [1, rc.rec_bytes(rng, "pre", rng.choice([0, 1, 4, 9, 1024 if big else 6]))]
        trunc_ok = rng.chance(1, 10)
        a0 = 0 if (trunc_ok and rng.chance(1, 2)) else 1
        nested = rng.chance(1, 8) and not big
        ops = []
        nops = rng.range(1, 7 if big else 30)
        rid = 0
        clock = trig[3] if trig[0] == 3 else 0
        for _ in range(nops):
            if trig[0] == 3 and rng.chance(1, 2):
                n_ = trig[1]
                clock = max(0, clock + rng.choice([0, 1, 1, n_ - 1, n_, n_, n_ + 1, 2 * n_, 61, -1, -n_]))
                ops.append([3, clock])
            k = rng.below(20)
            if k == 0:
                ops.append([1, 0 if (trunc_ok and rng.chance(1, 2)) else 1])
            elif k == 1 and not big:
                threads = []
                for t in range(rng.range(2, 4)):
                    recs = []
                    for r in range(rng.range(1, 4)):
                        recs.append(rc.chunked(rng, rc.rec_bytes(rng, "%d.%d.%d" % (rid, t, r), rng.range(4, 10))))
                    threads.append(recs)
                rid += 1
                ops.append([2, threads])
            else:
                if big:
                    sz = rng.choice([0, 3, 600, 1023, 1024, 1025, 2100])
                else:
                    sz = rng.choice([0, 1, 2, 3, 4, 5, 6, 8, 12, rng.below(13)])
                op = rc.op_append(rng, "%d" % rid, sz)
                if trig[0] == 3 and rng.chance(1, 7):
                    op = [7, op[1]]        # the roller is set to fail for this call (time trigger: pre-processing)
                elif rng.chance(1, 9) and not nested:
                    op = [12, op[1]]       # the roller rotates and THEN reports failure
                if nested and trig[0] != 3 and rng.chance(1, 3):
                    # the encoder / the roller of this call appends a record to a second rolling appender
                    op = [10, op[1], rc.rec_bytes(rng, "s%d" % rid, rng.range(4, 9)), rng.choice([1, 1, 2])]
                ops.append(op)
                rid += 1
        out.append([trig, roller, pre, a0, ops])
    # files rolled at EXACTLY a power-of-two size (and one byte around it), plain and gzip, archives next to the
    # log and on another file system: block-wise copying / compressing must not lose the last block
    sizes = [65536, 65535, 65537, 131072, 32768] if tier == "quick" else [4096, 8192, 8193, 16384, 32768, 65535, 65536, 65537, 131072, 262144]
    for j, sz in enumerate(sizes):
        for gz in (1, 0):
            for shape in ((0, 3) if tier != "quick" or j < 2 else (3 if j % 2 else 0,)):
                head = rng.range(3, 9)
                ops = [rc.op_append(rng, "h", head), [0, [rc.rec_bytes(rng, "big", sz - head)]],
                       rc.op_append(rng, "t1", 5), rc.op_append(rng, "t2", 7)]
                # post-processing user trigger: fires once the file holds sz bytes, i.e. after the 2nd append
                out.append([[2, 0, [rc.NEVER, sz, rc.NEVER, rc.NEVER]], [1, 0, 2, gz, shape, 0], [0], 1, ops])
    for _ in range(150 if tier == "quick" else 2500):
        out.append(hot_case(rng))
    for _ in range(250 if tier == "quick" else 3000):
        out.append(bg_case(rng))
    for _ in range(60 if tier == "quick" else 600):
        out.append(enospc_case(rng))
    # one long lifetime: more than 2 x 256 consultations of one on-start-up trigger
    out.append([[1, 2], [1, 0, 2, 0, 0, 0], [1, b"old"], 1,
                [rc.op_append(rng, "%d" % j, rng.choice([1, 2, 3])) for j in range(520)]])
    return out


def nontrivial(c):
    trig, roller, pre, a0, ops = c
    nrec = sum(1 if o[0] == 0 else sum(len(t) for t in o[1]) if o[0] == 2 else 0 for o in ops)
    nrec += sum(1 for o in ops if o[0] in (5, 7))
    can_fire = trig[0] in (0, 1) or (trig[0] == 3 and any(o[0] == 3 for o in ops)) or \
        (trig[0] == 2 and any(t < rc.NEVER for t in trig[2]))
    return nrec >= 2 and can_fire


def extra_checks(ctx, cases_, impl_lines, model_lines_):
    """Windows at the very end of the u32 index space (base + count = 2^32 and neighbours): the appender model keeps
    archive indices in `nat`, so these windows are exercised through C07's roller model (indices in N) - "only whole
    oldest files are discarded by the retention window" holds for every window the roller accepts."""
    from gen import xcheck
    res = xcheck.borrow(ctx, "C07", "retention window at the end of the u32 index space",
                        lambda c: c[0] == 0 and c[1] > (1 << 32) - 100, n=120)
    return res or bg_repeat_checks(ctx, cases_)


def bg_repeat_checks(ctx, cases_):
    """The background-rotation histories are schedules the operating system chooses: the same histories are run
    twice more, the two passes side by side (other interleavings of the appender with the rotation thread, other
    coincidences of temp-file names within one second), each judged like the first pass."""
    if ctx.get("release_pass"):
        return []
    from concurrent.futures import ThreadPoolExecutor
    vc = ctx["vc"]
    idx = [i for i, c in enumerate(cases_) if rc.bg_of(c[1])]
    if not idx:
        return []
    cs = [cases_[i] for i in idx]
    lines = [vc.show(c) for c in cs]
    sub = dict(ctx, vh=ctx["vh_bg"])
    with ThreadPoolExecutor(max_workers=2) as ex:
        passes = list(ex.map(lambda _: rc.run_impl(sub, cs, lines), range(2)))
    n = 0
    for got in passes:
        ml = model_lines(ctx, cs, lines, got) if "model_lines" in globals() else lines
        mo = vc.run_lines([ctx["drv"]], ml, timeout_per_batch=600, crash_marker="xmodelcrash")
        for c, ln, il, m in zip(cs, lines, got, mo):
            try:
                mv = vc.parse(m)
            except Exception:
                raise vc.Broken("corr:C05/model-run", "model failed on a repeated background case: %s" % m[:200])
            try:
                iv = vc.parse(il)
            except Exception:
                iv = b"unparsable:" + il[:100].encode()
            n += 1
            d = vc.safe_compare(sys.modules[__name__], c, iv, mv)
            if d is not None:
                return [("background rotation, the same history run again: %s" % d, {"case_line": ln})]
    ctx.setdefault("xcheck", {})["background_histories_run_again"] = n
    return []
